#!/bin/bash
# build.sh <workdir> [race]  — generate the overlay from the CURRENT tree of $VERIF_REPO (default /repo)
# and build the harness against it. Produces <workdir>/vh (and <workdir>/vh-race with "race").
set -u
WORK=$1; WANT_RACE=${2:-}
VERIF=${VERIF_DIR:-/verif}
REPO=${VERIF_REPO:-/repo}
export GOFLAGS=-mod=mod GOPROXY=off GOSUMDB=off GOTOOLCHAIN=local
mkdir -p "$WORK/ov" "$WORK/mod"
# module file pointing at the tree under test (a copy, so that /verif stays untouched)
sed "s#=> /repo#=> $REPO#" "$VERIF/harness/go.mod" > "$WORK/mod/go.mod"
cp "$VERIF/harness/go.sum" "$WORK/mod/go.sum" 2>/dev/null || cp "$REPO/go.sum" "$WORK/mod/go.sum"
build() { # $1 = output, $2.. = extra flags
  local out=$1; shift
  local tags=verif,verifexport
  python3 "$VERIF/instr/gen_overlay.py" "$REPO" "$WORK/ov" > /dev/null || return 1
  if ! (cd "$VERIF/harness" && go build -modfile="$WORK/mod/go.mod" -tags $tags -overlay="$WORK/ov/overlay.json" "$@" -o "$out" . ) 2> "$WORK/build.err"; then
    # the remote export shim may not fit a refactored tree: fall back to a build without it
    python3 "$VERIF/instr/gen_overlay.py" "$REPO" "$WORK/ov" noexport > /dev/null || return 1
    if ! (cd "$VERIF/harness" && go build -modfile="$WORK/mod/go.mod" -tags verif -overlay="$WORK/ov/overlay.json" "$@" -o "$out" . ) 2> "$WORK/build2.err"; then
      # the import shims may not fit either (a tree that uses sync or sync/atomic in a way they do not
      # cover): last resort is the uninstrumented tree under plain stress
      python3 "$VERIF/instr/gen_overlay.py" "$REPO" "$WORK/ov" plain > /dev/null || return 1
      if ! (cd "$VERIF/harness" && go build -modfile="$WORK/mod/go.mod" -tags verif -overlay="$WORK/ov/overlay.json" "$@" -o "$out" . ) 2> "$WORK/build3.err"; then
        echo "BUILD FAILED" >&2; cat "$WORK/build.err" "$WORK/build2.err" "$WORK/build3.err" >&2; return 1
      fi
      echo "note: built without instrumentation (the import shims no longer compile against this tree)" >&2
      touch "$WORK/plain"
    fi
    [ -e "$WORK/plain" ] || echo "note: built without the remote export shim (it no longer compiles against this tree)" >&2
    touch "$WORK/noexport"
  fi
}
build "$WORK/vh" || exit 3
if [ -n "$WANT_RACE" ]; then build "$WORK/vh-race" -race || exit 3; fi
exit 0
