//go:build verif

// Package vatomic stands in for sync/atomic in actor/inbox.go (see
// /verif/instr/gen_overlay.py): same functions, forwarded to the real ones,
// with a perturbation/trace hook at each.
package vatomic

import (
	"sync/atomic"
	"unsafe"

	"github.com/anthdm/hollywood/verifshim/vhook"
)

func b2i(b bool) int64 {
	if b {
		return 1
	}
	return 0
}

func CompareAndSwapInt32(addr *int32, old, new int32) (swapped bool) {
	vhook.Perturb(vhook.OpCAS)
	vhook.Do(vhook.OpCAS, uintptr(unsafe.Pointer(addr)), int64(old), int64(new), func() int64 {
		swapped = atomic.CompareAndSwapInt32(addr, old, new)
		return b2i(swapped)
	})
	return
}

func LoadInt32(addr *int32) (v int32) {
	vhook.Perturb(vhook.OpLoad)
	vhook.Do(vhook.OpLoad, uintptr(unsafe.Pointer(addr)), 0, 0, func() int64 {
		v = atomic.LoadInt32(addr)
		return int64(v)
	})
	return
}

func SwapInt32(addr *int32, new int32) (old int32) {
	vhook.Perturb(vhook.OpSwap)
	vhook.Do(vhook.OpSwap, uintptr(unsafe.Pointer(addr)), int64(new), 0, func() int64 {
		old = atomic.SwapInt32(addr, new)
		return int64(old)
	})
	return
}

func StoreInt32(addr *int32, v int32) {
	vhook.Perturb(vhook.OpStore)
	vhook.Do(vhook.OpStore, uintptr(unsafe.Pointer(addr)), int64(v), 0, func() int64 {
		atomic.StoreInt32(addr, v)
		return 0
	})
}

func AddInt32(addr *int32, d int32) (v int32) {
	vhook.Perturb(vhook.OpSwap)
	v = atomic.AddInt32(addr, d)
	return
}

func AddInt64(addr *int64, d int64) int64  { return atomic.AddInt64(addr, d) }
func LoadInt64(addr *int64) int64          { return atomic.LoadInt64(addr) }
func StoreInt64(addr *int64, v int64)      { atomic.StoreInt64(addr, v) }
func SwapInt64(addr *int64, v int64) int64 { return atomic.SwapInt64(addr, v) }
func CompareAndSwapInt64(addr *int64, old, new int64) bool {
	return atomic.CompareAndSwapInt64(addr, old, new)
}
func LoadUint32(addr *uint32) uint32     { return atomic.LoadUint32(addr) }
func StoreUint32(addr *uint32, v uint32) { atomic.StoreUint32(addr, v) }
func CompareAndSwapUint32(addr *uint32, old, new uint32) bool {
	return atomic.CompareAndSwapUint32(addr, old, new)
}

type (
	Int32  = atomic.Int32
	Int64  = atomic.Int64
	Uint32 = atomic.Uint32
	Uint64 = atomic.Uint64
	Bool   = atomic.Bool
	Value  = atomic.Value
)

// The rest of sync/atomic, forwarded unchanged, so that a tree that starts using
// another part of the package still builds with the overlay.
type Uintptr = atomic.Uintptr

type Pointer[T any] struct{ atomic.Pointer[T] }

func AddUint32(addr *uint32, d uint32) uint32     { return atomic.AddUint32(addr, d) }
func SwapUint32(addr *uint32, v uint32) uint32    { return atomic.SwapUint32(addr, v) }
func AddUint64(addr *uint64, d uint64) uint64     { return atomic.AddUint64(addr, d) }
func LoadUint64(addr *uint64) uint64              { return atomic.LoadUint64(addr) }
func StoreUint64(addr *uint64, v uint64)          { atomic.StoreUint64(addr, v) }
func SwapUint64(addr *uint64, v uint64) uint64    { return atomic.SwapUint64(addr, v) }
func AddUintptr(addr *uintptr, d uintptr) uintptr { return atomic.AddUintptr(addr, d) }
func LoadUintptr(addr *uintptr) uintptr           { return atomic.LoadUintptr(addr) }
func StoreUintptr(addr *uintptr, v uintptr)       { atomic.StoreUintptr(addr, v) }
func CompareAndSwapUint64(addr *uint64, old, new uint64) bool {
	return atomic.CompareAndSwapUint64(addr, old, new)
}
func LoadPointer(addr *unsafe.Pointer) unsafe.Pointer     { return atomic.LoadPointer(addr) }
func StorePointer(addr *unsafe.Pointer, v unsafe.Pointer) { atomic.StorePointer(addr, v) }
func SwapPointer(addr *unsafe.Pointer, v unsafe.Pointer) unsafe.Pointer {
	return atomic.SwapPointer(addr, v)
}
func CompareAndSwapPointer(addr *unsafe.Pointer, old, new unsafe.Pointer) bool {
	return atomic.CompareAndSwapPointer(addr, old, new)
}
