#!/usr/bin/env python3
"""Generate the build overlay that instruments the code under test.

usage: gen_overlay.py <repo> <outdir> [noexport|plain]

Nothing in <repo> is modified. Selected files of the CURRENT tree are copied to
<outdir> with only their import lines rewritten to point at shim packages, and
the shim packages themselves are mapped into the hollywood module under
verifshim/. Prints the overlay json path. If an import to rewrite is not
there any more the file is left alone and the fact is recorded in
<outdir>/instr_report.json (the run then continues with plain stress).
"""
import json, os, re, sys

repo = os.path.abspath(sys.argv[1])
out = os.path.abspath(sys.argv[2])
noexport = len(sys.argv) > 3 and sys.argv[3] in ("noexport", "plain")
plain = len(sys.argv) > 3 and sys.argv[3] == "plain"  # shim packages only, no import rewritten
here = os.path.dirname(os.path.abspath(__file__))
MOD = "github.com/anthdm/hollywood"
os.makedirs(out, exist_ok=True)

replace = {}
report = {"rewritten": [], "missing": []}

def rewrite(rel, subs):
    src = os.path.join(repo, rel)
    if plain:
        report["missing"].append(rel + ": not instrumented (plain fallback build)")
        return
    if not os.path.exists(src):
        report["missing"].append(rel + ": file not found")
        return
    text = open(src).read()
    # the import block only
    m = re.search(r'^import\s*\((.*?)^\)', text, re.S | re.M)
    single = None
    if not m:
        single = re.search(r'^import[ \t]+("[^"]+")[ \t]*$', text, re.M)
        if not single:
            report["missing"].append(rel + ": no import block")
            return
    block = m.group(1) if m else single.group(0)
    new = block
    done = []
    for old_imp, new_imp in subs:
        pat = re.compile(r'^([ \t]*)(?:\w+[ \t]+)?"%s"[ \t]*$' % re.escape(old_imp), re.M)
        if single:
            pat = re.compile(r'^import[ \t]+"%s"[ \t]*$' % re.escape(old_imp), re.M)
            if pat.search(new):
                new = pat.sub('import ' + new_imp, new)
                done.append(old_imp)
            else:
                report["missing"].append("%s: import %s" % (rel, old_imp))
            continue
        if pat.search(new):
            new = pat.sub(lambda mm: mm.group(1) + new_imp, new)
            done.append(old_imp)
        else:
            report["missing"].append("%s: import %s" % (rel, old_imp))
    if not done:
        return
    text = text.replace(block, new, 1)
    dst = os.path.join(out, rel.replace("/", "__"))
    open(dst, "w").write(text)
    replace[src] = dst
    report["rewritten"].append({"file": rel, "imports": done})

rewrite("actor/inbox.go", [
    ("sync/atomic", 'atomic "%s/verifshim/vatomic"' % MOD),
    (MOD + "/ringbuffer", 'ringbuffer "%s/verifshim/vring"' % MOD),
])
for f in ("actor/registry.go", "safemap/safemap.go", "ringbuffer/ringbuffer.go"):
    rewrite(f, [("sync", 'sync "%s/verifshim/vsync"' % MOD)])

for pkg in ("vhook", "vatomic", "vring", "vsync"):
    replace[os.path.join(repo, "verifshim", pkg, pkg + ".go")] = os.path.join(here, pkg, pkg + ".go")
if not noexport:
    replace[os.path.join(repo, "remote", "zz_verif_export.go")] = os.path.join(here, "export", "remote_export.go")

ov = os.path.join(out, "overlay.json")
json.dump({"Replace": replace}, open(ov, "w"), indent=1)
json.dump(report, open(os.path.join(out, "instr_report.json"), "w"), indent=1)
print(ov)
