//go:build verif

// Package vring stands in for the ringbuffer package in actor/inbox.go. It
// wraps the real RingBuffer (the code under test) and adds a
// perturbation/trace hook before Push, PopN, Pop and Len.
package ringbuffer

import (
	"unsafe"

	real "github.com/anthdm/hollywood/ringbuffer"
	"github.com/anthdm/hollywood/verifshim/vhook"
)

type RingBuffer[T any] struct {
	rb *real.RingBuffer[T]
}

func New[T any](size int64) *RingBuffer[T] {
	return &RingBuffer[T]{rb: real.New[T](size)}
}

func (r *RingBuffer[T]) Push(item T) {
	vhook.Perturb(vhook.OpPush)
	vhook.Do(vhook.OpPush, uintptr(unsafe.Pointer(r)), 0, 0, func() int64 {
		r.rb.Push(item)
		return 0
	})
}

func (r *RingBuffer[T]) Len() (n int64) {
	vhook.Perturb(vhook.OpLen)
	vhook.Do(vhook.OpLen, uintptr(unsafe.Pointer(r)), 0, 0, func() int64 {
		n = r.rb.Len()
		return n
	})
	return
}

func (r *RingBuffer[T]) Pop() (item T, ok bool) {
	vhook.Perturb(vhook.OpPopN)
	vhook.Do(vhook.OpPopN, uintptr(unsafe.Pointer(r)), 1, 0, func() int64 {
		item, ok = r.rb.Pop()
		if ok {
			return 1
		}
		return 0
	})
	return
}

func (r *RingBuffer[T]) PopN(n int64) (items []T, ok bool) {
	vhook.Perturb(vhook.OpPopN)
	vhook.Do(vhook.OpPopN, uintptr(unsafe.Pointer(r)), n, 0, func() int64 {
		items, ok = r.rb.PopN(n)
		return int64(len(items))
	})
	return
}
