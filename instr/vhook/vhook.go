//go:build verif

// Package vhook is the hook point shared by the import shims (vatomic, vring,
// vsync) that the verification overlay substitutes for sync/atomic, the ring
// buffer and sync in selected files of the code under test.
//
// Mode is chosen once, at process start, from the environment, so that reading
// it is free of synchronisation:
//
//	VERIF_HOOK=off    no effect
//	VERIF_HOOK=chaos  timing perturbation only; completely synchronisation-free
//	                  (no mutex, no atomics, no shared PRNG) so that it cannot
//	                  hide a race from the race detector
//	VERIF_HOOK=trace  chaos + an exact, mutex-ordered trace of the operations
//	                  (only for non-sanitizer runs)
package vhook

import (
	"os"
	"runtime"
	"strconv"
	"sync"
	"time"
	"unsafe"
)

// Operation classes.
const (
	OpCAS = iota
	OpLoad
	OpSwap
	OpStore
	OpPush
	OpPopN
	OpLen
	OpLock
	OpUnlock
	OpRLock
	OpRUnlock
	OpUser // perturbation points inside harness receivers
	numOps
)

var OpNames = [...]string{"cas", "load", "swap", "store", "push", "popn", "len", "lock", "unlock", "rlock", "runlock", "user"}

const (
	modeOff = iota
	modeChaos
	modeTrace
)

var (
	mode    = modeOff
	prob    = uint64(30) // percent of hook points that perturb
	maxUs   = uint64(50) // longest sleep for frequent operations, µs
	lockUs  = uint64(0)  // longest sleep before write-lock acquisitions, µs (0 = as maxUs)
	seedMix = uint64(0)
)

func init() {
	switch os.Getenv("VERIF_HOOK") {
	case "chaos":
		mode = modeChaos
	case "trace":
		mode = modeTrace
	}
	if v, err := strconv.ParseUint(os.Getenv("VERIF_HOOK_PROB"), 10, 64); err == nil {
		prob = v
	}
	if v, err := strconv.ParseUint(os.Getenv("VERIF_HOOK_MAXUS"), 10, 64); err == nil {
		maxUs = v
	}
	if v, err := strconv.ParseUint(os.Getenv("VERIF_HOOK_LOCKUS"), 10, 64); err == nil {
		lockUs = v
	}
	if v, err := strconv.ParseUint(os.Getenv("VERIF_SEED"), 10, 64); err == nil {
		seedMix = v * 0x9e3779b97f4a7c15
	}
}

// Enabled reports whether any hook mode is on.
func Enabled() bool { return mode != modeOff }

// Tracing reports whether the trace mode is on.
func Tracing() bool { return mode == modeTrace }

func mix(x uint64) uint64 {
	x ^= x >> 30
	x *= 0xbf58476d1ce4e5b9
	x ^= x >> 27
	x *= 0x94d049bb133111eb
	x ^= x >> 31
	return x
}

// rnd derives a pseudo random number from the clock and a stack address: no
// shared state, hence no happens-before edge between goroutines.
func rnd() uint64 {
	var local int
	return mix(uint64(time.Now().UnixNano()) ^ uint64(uintptr(unsafe.Pointer(&local)))<<17 ^ seedMix)
}

// Perturb possibly yields or sleeps. It is called by the shims *before* an
// operation (and after an unlock), never inside a critical section of the code
// under test: all of these are points at which the Go scheduler may preempt a
// goroutine anyway.
func Perturb(op int) {
	if mode == modeOff {
		return
	}
	r := rnd()
	if r%100 >= prob {
		return
	}
	r = mix(r)
	limit := maxUs
	if op == OpLock && lockUs > 0 {
		limit = lockUs
	}
	switch r % 4 {
	case 0, 1:
		runtime.Gosched()
	case 2:
		// short spin
		n := int((r >> 8) % 200)
		for i := 0; i < n; i++ {
			_ = mix(uint64(i))
		}
	default:
		if limit > 0 {
			time.Sleep(time.Duration(1+(r>>8)%limit) * time.Microsecond)
		} else {
			runtime.Gosched()
		}
	}
}

// ---- trace mode ---------------------------------------------------------

// Event is one traced operation.
type Event struct {
	G    uint64 // goroutine id
	Op   int
	A, B int64 // operation arguments (e.g. CAS old, new; PopN n)
	R    int64 // result (CAS: 1/0; Load: value; PopN: number popped; Len: value)
	Obj  uintptr
}

var (
	tmu   sync.Mutex
	trace []Event
	tOn   bool
)

// TraceStart clears the trace and starts recording.
func TraceStart() {
	tmu.Lock()
	trace = trace[:0]
	tOn = true
	tmu.Unlock()
}

// TraceStop stops recording and returns a copy of the trace.
func TraceStop() []Event {
	tmu.Lock()
	tOn = false
	out := make([]Event, len(trace))
	copy(out, trace)
	tmu.Unlock()
	return out
}

// Do runs f — the real operation — and, in trace mode, appends the event under
// the same mutex, so that the trace is an exact total order of the traced
// operations (the monitor state is updated atomically with what it shadows).
// f returns the result to record.
func Do(op int, obj uintptr, a, b int64, f func() int64) {
	if mode != modeTrace {
		f()
		return
	}
	g := goid()
	tmu.Lock()
	r := f()
	if tOn {
		trace = append(trace, Event{G: g, Op: op, A: a, B: b, R: r, Obj: obj})
	}
	tmu.Unlock()
}

func goid() uint64 {
	var buf [64]byte
	n := runtime.Stack(buf[:], false)
	// "goroutine 123 ["
	var id uint64
	for i := len("goroutine "); i < n; i++ {
		c := buf[i]
		if c < '0' || c > '9' {
			break
		}
		id = id*10 + uint64(c-'0')
	}
	return id
}

// Goid exposes the goroutine id to harness code.
func Goid() uint64 { return goid() }
