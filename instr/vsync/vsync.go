//go:build verif

// Package vsync stands in for sync in actor/registry.go, safemap/safemap.go and
// ringbuffer/ringbuffer.go: Mutex and RWMutex forward to the real ones, with a
// perturbation point before acquiring and after releasing — outside the
// critical section of the code under test.
package sync

import (
	real "sync"

	"github.com/anthdm/hollywood/verifshim/vhook"
)

type Mutex struct {
	mu real.Mutex
}

func (m *Mutex) Lock() {
	vhook.Perturb(vhook.OpLock)
	m.mu.Lock()
}
func (m *Mutex) TryLock() bool { return m.mu.TryLock() }
func (m *Mutex) Unlock() {
	m.mu.Unlock()
	vhook.Perturb(vhook.OpUnlock)
}

type RWMutex struct {
	mu real.RWMutex
}

func (m *RWMutex) Lock() {
	vhook.Perturb(vhook.OpLock)
	m.mu.Lock()
}
func (m *RWMutex) Unlock() {
	m.mu.Unlock()
	vhook.Perturb(vhook.OpUnlock)
}
func (m *RWMutex) RLock() {
	vhook.Perturb(vhook.OpRLock)
	m.mu.RLock()
}
func (m *RWMutex) RUnlock() {
	m.mu.RUnlock()
	vhook.Perturb(vhook.OpRUnlock)
}

type (
	WaitGroup = real.WaitGroup
	Once      = real.Once
	Map       = real.Map
	Pool      = real.Pool
	Cond      = real.Cond
	Locker    = real.Locker
)

func NewCond(l Locker) *Cond                                   { return real.NewCond(l) }
func OnceFunc(f func()) func()                                 { return real.OnceFunc(f) }
func OnceValue[T any](f func() T) func() T                     { return real.OnceValue(f) }
func OnceValues[T1, T2 any](f func() (T1, T2)) func() (T1, T2) { return real.OnceValues(f) }
