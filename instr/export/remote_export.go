//go:build verif

package remote

// Verification-only exports (supplied through the build overlay, never part of
// the repository): they let the harness drive the real streamWriter.Invoke and
// the real streamReader.Receive with fake streams.

import (
	"net"

	"github.com/anthdm/hollywood/actor"
)

// VerifDeliver is one outbound message as Remote.Send hands it to the router.
type VerifDeliver struct {
	Target *actor.PID
	Sender *actor.PID
	Msg    any
}

// VerifWriterInvoke runs the real streamWriter.Invoke on the given batch with
// the given (fake) stream and raw connection.
func VerifWriterInvoke(e *actor.Engine, addr string, stream DRPCRemote_ReceiveStream, rawconn net.Conn, batch []VerifDeliver) {
	w := newStreamWriter(e, nil, addr, nil, 0).(*streamWriter)
	w.stream = stream
	w.rawconn = rawconn
	envs := make([]actor.Envelope, len(batch))
	for i, d := range batch {
		envs[i] = actor.Envelope{Msg: &streamDeliver{target: d.Target, sender: d.Sender, msg: d.Msg}}
	}
	w.Invoke(envs)
}

// VerifReaderReceive runs the real streamReader.Receive against the given
// (fake) stream, delivering into the given engine.
func VerifReaderReceive(e *actor.Engine, stream DRPCRemote_ReceiveStream) error {
	r := newStreamReader(&Remote{engine: e})
	return r.Receive(stream)
}

// VerifSharedReader returns the Receive method of ONE streamReader, the way
// Remote.Start registers a single reader for all inbound connections: drpc
// calls it once per connection, concurrently.
func VerifSharedReader(e *actor.Engine) func(stream DRPCRemote_ReceiveStream) error {
	r := newStreamReader(&Remote{engine: e})
	return r.Receive
}

// VerifUnwrapDeliver looks inside the message of a DeadLetterEvent addressed to a
// stream writer: the undelivered outbound delivery.
func VerifUnwrapDeliver(msg any) (d VerifDeliver, ok bool) {
	sd, ok := msg.(*streamDeliver)
	if !ok || sd == nil {
		return VerifDeliver{}, false
	}
	return VerifDeliver{Target: sd.target, Sender: sd.sender, Msg: sd.msg}, true
}
