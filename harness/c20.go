package main

// C20 — the self-managed provider keeps a correct member list through joins and
// failures. A real cluster node with the real SelfManaged provider (zeroconf
// included) on a loopback remote, in a private network namespace. The member
// universe is a handful of cheap listening remotes, so that the provider's own
// pings never produce unreachable events. Handshakes are sent by a probe actor
// on a separate engine (it captures the Members replies); unreachable reports
// are injected with BroadcastEvent and flushed with a sentinel member whose
// removal must be observed.

import (
	"fmt"
	"sort"
	"strings"
	"sync"
	"time"

	"github.com/anthdm/hollywood/actor"
	"github.com/anthdm/hollywood/cluster"
	"github.com/anthdm/hollywood/remote"
)

func init() {
	register(&prop{
		id:    "C20",
		level: "exploration",
		rule: "PRNG sequences of 5-40 steps {handshake from a member, Members list, unreachable report for a member's address, unreachable report for an address that is not a member, repetitions} against the real provider; after every step the handshake replies, the agent's view (Members()) and the provider's restart events are compared with a list model; " +
			"non-trivial = the sequence contains an unreachable report for a non-member or removes and re-adds a member; distinct by the step sequence",
		assumptions: []string{
			"every member host used is a listening remote, so the provider's 2 s ping never reports a member unreachable by itself",
			"no two members share a host, and the node's own address is never reported unreachable",
			"the unreachable path (event stream -> child actor -> provider) is asynchronous: a sentinel member is added and then reported unreachable behind the reports of interest; FIFO along that path makes its observed removal a barrier",
		},
		modes: func(tier string, seed int64) []modeSpec {
			n := 32
			if tier == "thorough" {
				n = 1280
			}
			return []modeSpec{
				{name: "provider", n: n, perChild: 1, parallel: 16, netns: true, timeout: 15 * time.Minute},
				{name: "discovery", n: n / 8, perChild: 1, parallel: 8, netns: true, timeout: 15 * time.Minute},
			}
		},
		run: func(c *caseCtx) caseResult {
			if c.mode == "discovery" {
				return c20Discovery(c)
			}
			return c20Run(c)
		},
		minDistinct: 10,
	})
}

type probeActor struct {
	mu      sync.Mutex
	replies [][]string
}

func (p *probeActor) Receive(c *actor.Context) {
	if m, ok := c.Message().(*cluster.Members); ok {
		var ids []string
		for _, mm := range m.Members {
			ids = append(ids, mm.ID)
		}
		sort.Strings(ids)
		p.mu.Lock()
		p.replies = append(p.replies, ids)
		p.mu.Unlock()
	}
}

func (p *probeActor) count() int {
	p.mu.Lock()
	defer p.mu.Unlock()
	return len(p.replies)
}

func (p *probeActor) last() []string {
	p.mu.Lock()
	defer p.mu.Unlock()
	return p.replies[len(p.replies)-1]
}

func c20Run(c *caseCtx) (res caseResult) {
	r := c.rng
	wd := watchdog(c.tier)
	base := 10000 + (c.n%900)*24 // (below the ephemeral port range: an outgoing connection must not take a port we listen on)
	addr := func(i int) string { return fmt.Sprintf("127.0.0.1:%d", base+i) }
	// the node under test
	cfg := cluster.NewConfig().WithListenAddr(addr(0)).WithID("node").WithRequestTimeout(60 * time.Second)
	// every other case: the node is configured with bootstrap members, which are members of the universe
	// below (u0 under its first address, u3 under its second); they are members like any other
	boot := c.n%2 == 1
	smcfg := cluster.NewSelfManagedConfig()
	if boot {
		smcfg = smcfg.WithBootstrapMember(cluster.MemberAddr{ListenAddr: addr(2), ID: "u0"}).
			WithBootstrapMember(cluster.MemberAddr{ListenAddr: addr(9 + 3), ID: "u3"})
	}
	// the real provider, behind a receiver that can be parked (a busy provider: messages queue up in its inbox)
	realProvider := cluster.NewSelfManagedProvider(smcfg)
	cfg = cfg.WithProvider(func(cl *cluster.Cluster) actor.Producer {
		ip := realProvider(cl)
		return func() actor.Receiver { return &parkable{inner: ip()} }
	})
	cl, err := cluster.New(cfg)
	if err != nil {
		res.inconclusive("cluster: %v", err)
		return
	}
	cl.Start()
	e := cl.Engine()
	mon := &eventMonitor{}
	mp := e.Spawn(func() actor.Receiver { return mon }, "verifmonitor", actor.WithID("0"))
	e.Subscribe(mp)
	if !mon.flush(e, wd) {
		res.inconclusive("monitor subscription not confirmed")
		return
	}
	// the harness engine with the probe actor
	hr := remote.New(addr(1), remote.NewConfig())
	h, err := actor.NewEngine(actor.NewEngineConfig().WithRemote(hr))
	if err != nil {
		res.inconclusive("harness engine: %v", err)
		return
	}
	probe := &probeActor{}
	probePID := h.Spawn(func() actor.Receiver { return probe }, "probe", actor.WithID("0"))
	// in a burst every handshake comes from a peer of its own: the answer goes to the peer that asked
	var peers []*probeActor
	var peerPIDs []*actor.PID
	for i := 0; i < 8; i++ {
		pa := &probeActor{}
		peers = append(peers, pa)
		peerPIDs = append(peerPIDs, h.Spawn(func() actor.Receiver { return pa }, "peer", actor.WithID(fmt.Sprint(i))))
	}
	model := map[string]*cluster.Member{"node": cl.Member()}
	// the universe: listening remotes
	var stops []*remote.Remote
	universe := []*cluster.Member{}
	altHost := map[string]string{}
	for i := 0; i < 5; i++ {
		for _, port := range []int{2 + i, 9 + i} {
			rm := remote.New(addr(port), remote.NewConfig())
			if _, err := actor.NewEngine(actor.NewEngineConfig().WithRemote(rm)); err != nil {
				res.inconclusive("universe engine: %v", err)
				return
			}
			stops = append(stops, rm)
		}
		universe = append(universe, &cluster.Member{ID: fmt.Sprintf("u%d", i), Host: addr(2 + i), Region: "r", Kinds: []string{fmt.Sprintf("k%d", i%2)}})
		altHost[fmt.Sprintf("u%d", i)] = addr(9 + i) // the same member may come back under another address
	}
	// two members behind one address (clusters that share an engine, or a stale list naming a node's previous
	// incarnation): different ids, different members
	universe = append(universe, &cluster.Member{ID: "t0", Host: addr(2), Region: "r", Kinds: []string{"k0"}})
	altHost["t0"] = addr(2)
	hostShared := func(id string) bool {
		cur := model[id]
		if cur == nil {
			return false
		}
		for oid, m := range model {
			if oid != id && m.Host == cur.Host {
				return true
			}
		}
		return false
	}
	hostInUse := func(h string) bool {
		for _, m := range model {
			if m.Host == h {
				return true
			}
		}
		return false
	}
	// a member that is currently absent joins under either of its addresses; one that is present keeps its address
	incarnate := func(m *cluster.Member) *cluster.Member {
		if cur, ok := model[m.ID]; ok {
			return cur
		}
		mm := m.CloneVT()
		if r.Intn(2) == 0 {
			mm.Host = altHost[m.ID]
		}
		return mm
	}
	zr := remote.New(addr(8), remote.NewConfig())
	if _, err := actor.NewEngine(actor.NewEngineConfig().WithRemote(zr)); err != nil {
		res.inconclusive("sentinel engine: %v", err)
		return
	}
	stops = append(stops, zr, hr)
	defer func() {
		for _, s := range stops {
			s.Stop()
		}
	}()
	sentinel := &cluster.Member{ID: "zz-sentinel", Host: addr(8), Region: "r"}
	providerPID := actor.NewPID(addr(0), "provider/node")
	modelIDs := func() []string {
		var ids []string
		for id := range model {
			ids = append(ids, id)
		}
		sort.Strings(ids)
		return ids
	}
	agentIDs := func() []string {
		var ids []string
		for _, m := range cl.Members() {
			ids = append(ids, m.ID)
		}
		sort.Strings(ids)
		return ids
	}
	handshake := func(m *cluster.Member) ([]string, bool) {
		n := probe.count()
		h.SendWithSender(providerPID, &cluster.Handshake{Member: m.CloneVT()}, probePID)
		if !waitFor(wd/2, func() bool { return probe.count() > n }) {
			// decide on state: a Members list sent after the handshake travels the same way (harness engine ->
			// provider inbox); once it has taken effect at the agent the provider has handled the handshake
			h.Send(providerPID, &cluster.Members{Members: []*cluster.Member{sentinel.CloneVT()}})
			if waitFor(wd/2, func() bool {
				for _, id := range agentIDs() {
					if id == sentinel.ID {
						return true
					}
				}
				return false
			}) && probe.count() == n {
				res.violate("a handshake from member %s@%s was handled by the provider (a Members list sent after it has taken effect) but never answered: every handshake is answered with the complete member list", m.ID, m.Host)
			}
			return nil, false
		}
		return probe.last(), true
	}
	// barrier for the unreachable path
	flushUnreachable := func() bool {
		h.Send(providerPID, &cluster.Members{Members: []*cluster.Member{sentinel.CloneVT()}})
		// make sure the sentinel is in before it is reported (same inbox: the handshake reply proves it)
		ids, ok := handshake(cl.Member())
		if !ok {
			return false
		}
		found := false
		for _, id := range ids {
			if id == sentinel.ID {
				found = true
			}
		}
		if !found {
			res.violate("a Members list containing a new member was sent to the provider, the following handshake reply does not list that member: %v", ids)
			return false
		}
		e.BroadcastEvent(actor.RemoteUnreachableEvent{ListenAddr: sentinel.Host})
		if waitFor(wd/3, func() bool {
			for _, id := range agentIDs() {
				if id == sentinel.ID {
					return false
				}
			}
			return true
		}) {
			return true
		}
		// decide on state: what does the provider itself say (a handshake makes it report, so the agent is read first)
		before := agentIDs()
		ids, ok = handshake(cl.Member())
		if !ok {
			return false
		}
		inProvider := false
		for _, id := range ids {
			if id == sentinel.ID {
				inProvider = true
			}
		}
		if !inProvider {
			res.violate("a member was reported unreachable: the provider removed it (its handshake reply lists %v) but did not tell its agent, whose view stayed %v", ids, before)
		}
		return false
	}
	steps := 5 + r.Intn(36)
	var script []string
	var shape []byte
	interesting := 0
	everRemoved := map[string]bool{}
	compare := func(step int, what string) {
		// the provider's own list, seen through a handshake of the node itself (adds nothing)
		ids, ok := handshake(cl.Member())
		if !ok {
			res.inconclusive("step %d (%s): no handshake reply", step, what)
			return
		}
		if strings.Join(ids, ",") != strings.Join(modelIDs(), ",") {
			res.violate("step %d (%s): the provider's member list is %v, the model says %v", step, what, ids, modelIDs())
		}
		if a := agentIDs(); strings.Join(a, ",") != strings.Join(modelIDs(), ",") {
			res.violate("step %d (%s): the agent's view is %v, the provider's list should be %v", step, what, a, modelIDs())
		}
		restarts := mon.count(func(x any) bool {
			ev, ok := x.(actor.ActorRestartedEvent)
			return ok && ev.PID.ID == "provider/node"
		})
		if restarts > 0 {
			res.violate("step %d (%s): the provider actor crashed and was restarted %d time(s)", step, what, restarts)
		}
	}
	compare(-1, "start")
	for step := 0; step < steps && res.Verdict != vViolated && res.Verdict != vInconclusive; step++ {
		var what string
		switch x := r.Intn(10); {
		case x < 3: // handshake from a universe member
			m := incarnate(universe[r.Intn(len(universe))])
			ids, ok := handshake(m)
			if !ok {
				res.inconclusive("step %d: no reply to a handshake", step)
				return
			}
			if everRemoved[m.ID] {
				interesting++
			}
			model[m.ID] = m
			what = "handshake " + m.ID + "@" + m.Host
			if strings.Join(ids, ",") != strings.Join(modelIDs(), ",") {
				res.violate("step %d (%s): the handshake was answered with %v, the complete member list is %v", step, what, ids, modelIDs())
			}
			shape = append(shape, 'H')
		case x < 5: // a Members list
			var ms []*cluster.Member
			var names []string
			for _, m := range universe {
				if r.Intn(2) == 0 {
					mm := incarnate(m)
					ms = append(ms, mm.CloneVT())
					names = append(names, mm.ID+"@"+mm.Host)
					model[mm.ID] = mm
				}
			}
			// the order of the list is the sender's business
			r.Shuffle(len(ms), func(i, j int) { ms[i], ms[j] = ms[j], ms[i] })
			h.Send(providerPID, &cluster.Members{Members: ms})
			what = fmt.Sprintf("members %v", names)
			// the provider reports the new list to its agent as part of handling the message: the agent's view
			// must follow without any further stimulus (a handshake would make the provider report anyway)
			if !waitFor(wd/3, func() bool { return strings.Join(agentIDs(), ",") == strings.Join(modelIDs(), ",") }) {
				before := agentIDs()
				ids, ok := handshake(cl.Member())
				if ok && strings.Join(ids, ",") == strings.Join(modelIDs(), ",") {
					res.violate("step %d (%s): the provider added the members of the list (its handshake reply lists %v) but did not report them to its agent, whose view stayed %v until another message made the provider report", step, what, ids, before)
				} else {
					res.inconclusive("step %d (%s): neither the agent (%v) nor the provider (%v) reached %v", step, what, before, ids, modelIDs())
				}
			}
			shape = append(shape, 'M')
		case x < 8 && x != 8: // unreachable report for a member
			var cand []string
			for id := range model {
				if id != "node" && !hostShared(id) { // (which of two members behind one address goes is not settled by the statement)
					cand = append(cand, id)
				}
			}
			if len(cand) == 0 {
				continue
			}
			sort.Strings(cand)
			id := cand[r.Intn(len(cand))]
			reps := 1 + r.Intn(2)
			for k := 0; k < reps; k++ {
				e.BroadcastEvent(actor.RemoteUnreachableEvent{ListenAddr: model[id].Host})
			}
			delete(model, id)
			everRemoved[id] = true
			if reps > 1 {
				interesting++ // the second report is for a non-member
			}
			if !flushUnreachable() {
				if res.Verdict != vViolated {
					res.inconclusive("step %d: the sentinel barrier did not complete", step)
				}
				return
			}
			what = fmt.Sprintf("unreachable x%d for member %s", reps, id)
			shape = append(shape, 'U')
		case x == 8 && step%2 == 0: // a burst of handshakes: every answer is the complete list as of that handshake
			var absent []*cluster.Member
			for _, m := range universe {
				if model[m.ID] == nil {
					absent = append(absent, incarnate(m))
				}
			}
			if len(absent) < 2 {
				continue
			}
			n0 := make([]int, len(peers))
			for i, pa := range peers {
				n0[i] = pa.count()
			}
			var expected [][]string
			for i, m := range absent {
				model[m.ID] = m
				expected = append(expected, modelIDs())
				h.SendWithSender(providerPID, &cluster.Handshake{Member: m.CloneVT()}, peerPIDs[i%len(peers)])
			}
			answered := func() int {
				t := 0
				for i, pa := range peers {
					t += pa.count() - n0[i]
				}
				return t
			}
			what = fmt.Sprintf("burst of %d handshakes, each from a peer of its own", len(absent))
			if !waitFor(wd, func() bool { return answered() >= len(absent) }) {
				res.inconclusive("step %d: %d of %d handshakes of a burst were answered", step, answered(), len(absent))
				return
			}
			for i := range absent {
				pa := peers[i%len(peers)]
				pa.mu.Lock()
				got := append([][]string(nil), pa.replies[n0[i%len(peers)]:]...)
				pa.mu.Unlock()
				if len(got) != 1 {
					res.violate("step %d (%s): the peer that sent handshake %d received %d answers, the others %d: every handshake is answered to the peer that sent it", step, what, i, len(got), answered()-len(got))
					break
				}
				if strings.Join(got[0], ",") != strings.Join(expected[i], ",") {
					res.violate("step %d (%s): handshake %d of the burst was answered with %v, the complete member list at that point was %v (an answer must not change after it has been given)", step, what, i, got[0], expected[i])
					break
				}
			}
			interesting++
			shape = append(shape, 'B')
		case x == 8: // the same member fails, comes back under the same address, and fails again - nothing else in between
			var cand []string
			for id := range model {
				if id != "node" && !hostShared(id) {
					cand = append(cand, id)
				}
			}
			if len(cand) == 0 {
				continue
			}
			sort.Strings(cand)
			m := model[cand[r.Intn(len(cand))]]
			gone := func() bool {
				for _, id := range agentIDs() {
					if id == m.ID {
						return false
					}
				}
				return true
			}
			what = fmt.Sprintf("%s fails, rejoins at %s, fails again", m.ID, m.Host)
			for round := 0; round < 2; round++ {
				e.BroadcastEvent(actor.RemoteUnreachableEvent{ListenAddr: m.Host})
				if !waitFor(wd/3, gone) {
					// decide on state: what does the provider say
					ids, ok := handshake(cl.Member())
					still := false
					for _, id := range ids {
						if id == m.ID {
							still = true
						}
					}
					if ok && still {
						res.violate("step %d (%s): report %d for the address of member %s did not remove it (the provider still lists %v)", step, what, round+1, m.ID, ids)
					} else if res.Verdict != vViolated {
						res.inconclusive("step %d (%s): the agent did not drop the member", step, what)
					}
					return
				}
				if round == 0 {
					if _, ok := handshake(m); !ok {
						res.inconclusive("step %d: no handshake reply", step)
						return
					}
				}
			}
			delete(model, m.ID)
			everRemoved[m.ID] = true
			interesting++
			shape = append(shape, 'R')
		case x == 9 && step%3 == 0: // the provider is busy; a member's handshake and the report that its address is unreachable queue up, in that order
			var absent []*cluster.Member
			for _, m := range universe {
				if model[m.ID] == nil {
					absent = append(absent, incarnate(m))
				}
			}
			if len(absent) == 0 {
				continue
			}
			m := absent[r.Intn(len(absent))]
			if hostInUse(m.Host) {
				continue
			}
			pk := c20Park{entered: make(chan struct{}), release: make(chan struct{})}
			e.Send(providerPID, pk)
			select {
			case <-pk.entered:
			case <-time.After(wd):
				res.inconclusive("step %d: the provider did not take up a message", step)
				return
			}
			n0 := probe.count()
			e.SendWithSender(providerPID, &cluster.Handshake{Member: m.CloneVT()}, probePID) // queued: the provider is parked
			e.BroadcastEvent(actor.RemoteUnreachableEvent{ListenAddr: m.Host})
			// let the report travel (event stream -> the provider's listener -> the provider's inbox) while the provider is still busy
			mon.flush(e, wd)
			time.Sleep(20 * time.Millisecond)
			close(pk.release)
			if !waitFor(wd, func() bool { return probe.count() > n0 }) {
				res.inconclusive("step %d: the queued handshake was not answered", step)
				return
			}
			everRemoved[m.ID] = true
			interesting++
			if !flushUnreachable() {
				if res.Verdict != vViolated {
					res.inconclusive("step %d: the sentinel barrier did not complete", step)
				}
				return
			}
			what = fmt.Sprintf("provider busy: handshake of %s@%s, then unreachable report for that address, both queued", m.ID, m.Host)
			shape = append(shape, 'P')
		default: // unreachable report for a non-member
			var host string
			if r.Intn(2) == 0 {
				host = fmt.Sprintf("127.0.0.1:%d", base+16+r.Intn(3)) // nobody there, never a member
			} else {
				// an address of the universe that no current member uses: of an absent member, or the OTHER
				// address of a member that came back under a new one
				var cands []string
				for _, m := range universe {
					for _, hst := range []string{m.Host, altHost[m.ID]} {
						if !hostInUse(hst) {
							cands = append(cands, hst)
						}
					}
				}
				if len(cands) > 0 {
					host = cands[r.Intn(len(cands))]
				} else {
					host = "10.9.9.9:1"
				}
			}
			e.BroadcastEvent(actor.RemoteUnreachableEvent{ListenAddr: host})
			interesting++
			if !flushUnreachable() {
				if res.Verdict != vViolated {
					res.inconclusive("step %d: the sentinel barrier did not complete", step)
				}
				return
			}
			what = "unreachable for non-member " + host
			shape = append(shape, 'N')
		}
		script = append(script, what)
		compare(step, what)
	}
	res.count("steps", int64(len(script)))
	res.count("handshake_replies", int64(probe.count()))
	res.Desc = fmt.Sprintf("provider steps=%s bootstrap=%v", string(shape), boot)
	if interesting > 0 {
		res.Sig = sigHash("c20", string(shape), boot)
	}
	if c.n < 2 || res.Verdict == vViolated {
		res.Sample = map[string]any{"history": script, "final_members": modelIDs()}
	}
	stopped := make(chan struct{})
	go func() { cl.Stop(); close(stopped) }()
	select {
	case <-stopped:
	case <-time.After(5 * time.Second):
	}
	return res
}

// c20Discovery: 2-4 real nodes find each other through zeroconf inside the child's
// private network namespace; then one of them dies for real (provider and agent
// stopped, listener closed). The survivors' providers learn it through their own
// pings. Hard oracle: a survivor never loses a live member, never lists an unknown
// id, and its provider never restarts. That discovery and failure detection
// complete in time is counted, not demanded (both depend on multicast timing).
func c20Discovery(c *caseCtx) (res caseResult) {
	r := c.rng
	wd := watchdog(c.tier)
	k := 2 + r.Intn(3)
	base := 12000 + (c.n%500)*8 // (below the ephemeral port range)
	type node struct {
		id  string
		cl  *cluster.Cluster
		rem *remote.Remote
		mon *eventMonitor
	}
	var nodes []*node
	for i := 0; i < k; i++ {
		nd := &node{id: fmt.Sprintf("d%d", i)}
		nd.rem = remote.New(fmt.Sprintf("127.0.0.1:%d", base+i), remote.NewConfig())
		e, err := actor.NewEngine(actor.NewEngineConfig().WithRemote(nd.rem))
		if err != nil {
			res.inconclusive("engine: %v", err)
			return
		}
		nd.mon = &eventMonitor{}
		mp := e.Spawn(func() actor.Receiver { return nd.mon }, "verifmonitor", actor.WithID("0"))
		e.Subscribe(mp)
		cl, err := cluster.New(cluster.NewConfig().WithEngine(e).WithID(nd.id).WithRequestTimeout(60 * time.Second))
		if err != nil {
			res.inconclusive("cluster: %v", err)
			return
		}
		nd.cl = cl
		cl.Start()
		nodes = append(nodes, nd)
	}
	view := func(nd *node) []string {
		var ids []string
		for _, m := range nd.cl.Members() {
			ids = append(ids, m.ID)
		}
		sort.Strings(ids)
		return ids
	}
	all := func(except string) []string {
		var ids []string
		for _, nd := range nodes {
			if nd.id != except {
				ids = append(ids, nd.id)
			}
		}
		sort.Strings(ids)
		return ids
	}
	res.Desc = fmt.Sprintf("discovery nodes=%d", k)
	complete := waitFor(wd, func() bool {
		for _, nd := range nodes {
			if strings.Join(view(nd), ",") != strings.Join(all(""), ",") {
				return false
			}
		}
		return true
	})
	hard := func(when string, alive []string, dead string) {
		for _, nd := range nodes {
			if nd.id == dead {
				continue
			}
			v := view(nd)
			known := map[string]bool{}
			for _, id := range all("") {
				known[id] = true
			}
			have := map[string]bool{}
			for _, id := range v {
				have[id] = true
				if !known[id] {
					res.violate("%s: node %s lists an unknown member %q", when, nd.id, id)
				}
			}
			if complete {
				for _, id := range alive {
					if !have[id] {
						res.violate("%s: node %s lost the live member %s (its view: %v)", when, nd.id, id, v)
					}
				}
			}
			if n := nd.mon.count(func(x any) bool {
				ev, ok := x.(actor.ActorRestartedEvent)
				return ok && ev.PID.ID == "provider/"+nd.id
			}); n > 0 {
				res.violate("%s: the provider of node %s crashed and was restarted %d time(s)", when, nd.id, n)
			}
		}
	}
	if complete {
		res.count("discovery_complete", 1)
	} else {
		res.count("discovery_incomplete", 1)
	}
	hard("after discovery", all(""), "")
	// one member dies
	victim := nodes[r.Intn(k)]
	stopped := make(chan struct{})
	go func() { victim.cl.Stop(); victim.rem.Stop().Wait(); close(stopped) }()
	select {
	case <-stopped:
	case <-time.After(wd):
		res.inconclusive("the victim did not stop")
		return
	}
	removed := waitFor(wd, func() bool {
		for _, nd := range nodes {
			if nd.id == victim.id {
				continue
			}
			for _, id := range view(nd) {
				if id == victim.id {
					return false
				}
			}
		}
		return true
	})
	if removed {
		res.count("failure_detected_everywhere", 1)
	} else {
		res.count("failure_not_detected_in_time", 1)
	}
	hard("after the death of "+victim.id, all(victim.id), victim.id)
	if complete && removed {
		res.Sig = sigHash("discovery", k, victim.id)
	}
	res.Sample = map[string]any{"scenario": res.Desc, "discovery_complete": complete, "victim": victim.id, "victim_removed_everywhere": removed}
	for _, nd := range nodes {
		if nd.id != victim.id {
			nd := nd
			go func() { nd.cl.Stop(); nd.rem.Stop() }()
		}
	}
	time.Sleep(200 * time.Millisecond)
	return res
}

// parkable wraps the provider's receiver: a c20Park message keeps it inside Receive until released.
type parkable struct{ inner actor.Receiver }

type c20Park struct{ entered, release chan struct{} }

func (p *parkable) Receive(c *actor.Context) {
	if pk, ok := c.Message().(c20Park); ok {
		close(pk.entered)
		<-pk.release
		return
	}
	p.inner.Receive(c)
}
