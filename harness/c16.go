package main

// C16 — no inbound envelope can crash a node or reach an unaddressed actor.
//
//   struct  structured hostile envelopes (tables possibly empty, indices from
//           {valid, -1, len, MaxInt32, MinInt32}, unknown/empty type names, truncated
//           payloads, nil messages) handed to the real streamReader.Receive on a
//           fake stream
//   bytes   byte-level mutations of valid encodings and random bytes through the
//           real Envelope.UnmarshalVT and, if they decode, through Receive
//   e2e     a hostile dRPC client (raw encoding) and raw TCP garbage against a live
//           node in a child process; afterwards a fresh connection must still
//           deliver a probe
//
// Oracle: no panic, the call returns; every delivery corresponds to a message of
// that envelope whose type and target indices are in range, whose type name is
// registered and whose payload decodes, delivered at exactly that target with
// exactly that payload, at most once and in envelope order; a sender is either
// the one its in-range index names or absent, never another one.

import (
	"context"
	"fmt"
	"math"
	"math/rand"
	"net"
	"time"

	"github.com/anthdm/hollywood/actor"
	"github.com/anthdm/hollywood/cluster"
	"github.com/anthdm/hollywood/remote"
	"storj.io/drpc"
	"storj.io/drpc/drpcconn"
)

func init() {
	register(&prop{
		id:    "C16",
		level: "exploration",
		rule: "struct: PRNG envelopes with 0-12 messages over tables of 0-4 entries, each index drawn from {valid, -1, len, len+1, MaxInt32, MinInt32}, type names from {registered, unknown, empty}, payloads from {valid, truncated, random}; bytes: valid encodings mutated by bit flips / truncation / splices, and pure random bytes; e2e: the same inputs sent by a hostile dRPC client plus raw TCP garbage to a live node, followed by a probe over a fresh connection, half of them while the node is still dialing a peer that is not there (its stream writer exists but has no connection yet); conc: 2-4 honest connections and a hostile one read side by side by ONE stream reader, each honest connection judged on its own. " +
			"Every input is saved before use. Non-trivial = the envelope contains at least one out-of-range index, unknown type or undecodable payload; distinct by the multiset of defect kinds and their positions",
		assumptions: []string{
			"an invalid SENDER index may lead to no delivery or to a delivery without sender (the statement fixes target and type); it must never lead to another sender",
			"whether messages behind a bad one in the same envelope are still delivered is not fixed ('bad input at most ends that one stream'): both are accepted; a fully valid envelope must be delivered completely",
			"'all byte strings' is sampled, not exhausted",
		},
		modes: func(tier string, seed int64) []modeSpec {
			a, b, e := 16000, 16000, 16
			if tier == "thorough" {
				a, b, e = 1500000, 1500000, 320
			}
			return []modeSpec{
				{name: "struct", n: a, perChild: a / 16, timeout: 20 * time.Minute},
				{name: "bytes", n: b, perChild: b / 16, timeout: 20 * time.Minute},
				{name: "e2e", n: e, perChild: e / 8, parallel: 8, netns: true, timeout: 20 * time.Minute},
				{name: "conc", n: 10 * e, perChild: 10 * e / 16, timeout: 20 * time.Minute},
			}
		},
		run: func(c *caseCtx) caseResult {
			switch c.mode {
			case "struct":
				return c16Struct(c)
			case "bytes":
				return c16Bytes(c)
			case "conc":
				if !exportAvailable {
					return caseResult{Desc: "conc mode unavailable: the remote export shim does not compile against this tree"}
				}
				return c15InternalConc(c, true)
			default:
				return c16E2E(c)
			}
		},
		minDistinct: 40,
	})
}

var c16TargetIDs = []string{"t/0", "t/1", "t/2", "t/3"}

func hostileIndex(r *rand.Rand, n int, defects *[]string, what string) int32 {
	switch x := r.Intn(10); {
	case x < 6 && n > 0:
		return int32(r.Intn(n))
	case x == 6:
		*defects = append(*defects, what+"=-1")
		return -1
	case x == 7:
		*defects = append(*defects, what+"=len")
		return int32(n)
	case x == 8:
		*defects = append(*defects, what+"=max")
		return pick(r, int32(math.MaxInt32), int32(n+1), 1000)
	default:
		if n > 0 && r.Intn(2) == 0 {
			return int32(r.Intn(n))
		}
		*defects = append(*defects, what+"=min")
		return math.MinInt32
	}
}

func hostileEnvelope(r *rand.Rand) (*remote.Envelope, []string) {
	var defects []string
	env := &remote.Envelope{}
	nT, nS, nN := r.Intn(5), r.Intn(5), r.Intn(5)
	for i := 0; i < nT; i++ {
		if r.Intn(25) == 0 {
			// an Envelope value may hold an empty slot in its tables (the decoder never produces one; the
			// property quantifies over Envelope values as well)
			env.Targets = append(env.Targets, nil)
			defects = append(defects, "nil-target-slot")
			continue
		}
		env.Targets = append(env.Targets, actor.NewPID("local", c16TargetIDs[r.Intn(len(c16TargetIDs))]))
	}
	for i := 0; i < nS; i++ {
		if r.Intn(25) == 0 {
			env.Senders = append(env.Senders, nil)
			defects = append(defects, "nil-sender-slot")
			continue
		}
		env.Senders = append(env.Senders, actor.NewPID("peer", fmt.Sprintf("s/%d", i)))
	}
	names := []string{"remote.TestMessage", "actor.PID", "actor.Ping", "cluster.Member"}
	for i := 0; i < nN; i++ {
		switch x := r.Intn(10); {
		case x < 7:
			env.TypeNames = append(env.TypeNames, names[r.Intn(len(names))])
		case x < 9:
			env.TypeNames = append(env.TypeNames, pick(r, "no.such.Type", "remote.Nope", "x"))
		default:
			env.TypeNames = append(env.TypeNames, "")
		}
	}
	nM := r.Intn(13)
	for i := 0; i < nM; i++ {
		if r.Intn(40) == 0 {
			env.Messages = append(env.Messages, nil)
			defects = append(defects, "nil-message")
			continue
		}
		m := &remote.Message{}
		m.TypeNameIndex = hostileIndex(r, nN, &defects, "type")
		m.TargetIndex = hostileIndex(r, nT, &defects, "target")
		m.SenderIndex = hostileIndex(r, nS, &defects, "sender")
		var data []byte
		if m.TypeNameIndex >= 0 && int(m.TypeNameIndex) < nN {
			switch env.TypeNames[m.TypeNameIndex] {
			case "remote.TestMessage":
				data, _ = (&remote.TestMessage{Data: []byte(fmt.Sprintf("m%d", i))}).MarshalVT()
			case "actor.PID":
				data, _ = (&actor.PID{Address: "a", ID: fmt.Sprint(i)}).MarshalVT()
			case "actor.Ping":
				data, _ = (&actor.Ping{From: &actor.PID{Address: "f", ID: fmt.Sprint(i)}}).MarshalVT()
			default:
				data = []byte{}
			}
		}
		switch r.Intn(12) {
		case 0:
			if len(data) > 1 {
				data = data[:len(data)-1-r.Intn(len(data)-1)]
				defects = append(defects, "truncated-payload")
			}
		case 1:
			data = make([]byte, 1+r.Intn(12))
			r.Read(data)
			defects = append(defects, "random-payload")
		}
		m.Data = data
		env.Messages = append(env.Messages, m)
	}
	return env, defects
}

// c16Judge checks the deliveries made for env.
func c16Judge(res *caseResult, env *remote.Envelope, got []delivery, rerr error) (nValid, nBad int) {
	type cand struct {
		target  string
		msg     any
		sender  *actor.PID
		senderV bool // sender index valid (or no senders table)
	}
	var cands []cand
	firstBad := -1
	senderAmbiguous := false
	unregistered := 0
	for i, m := range env.Messages {
		valid := m != nil && m.TypeNameIndex >= 0 && int(m.TypeNameIndex) < len(env.TypeNames) &&
			m.TargetIndex >= 0 && int(m.TargetIndex) < len(env.Targets) && env.Targets[m.TargetIndex] != nil
		var payload any
		if valid {
			p, err := remote.ProtoSerializer{}.Deserialize(m.Data, env.TypeNames[m.TypeNameIndex])
			if err != nil {
				valid = false
			}
			payload = p
		}
		if !valid {
			nBad++
			if firstBad < 0 {
				firstBad = i
			}
			cands = append(cands, cand{})
			continue
		}
		cd := cand{target: env.Targets[m.TargetIndex].ID, msg: payload}
		if m.SenderIndex >= 0 && int(m.SenderIndex) < len(env.Senders) {
			cd.sender, cd.senderV = env.Senders[m.SenderIndex], true
		} else if !(len(env.Senders) == 0 && m.SenderIndex == 0) {
			// how "no sender" is encoded is the implementation's business: an index outside the table
			// may mean "none" or may get the envelope rejected; completeness is then not demanded
			senderAmbiguous = true
		}
		registered := false
		for _, id := range c16TargetIDs {
			if id == cd.target {
				registered = true
			}
		}
		if registered {
			nValid++
		} else {
			unregistered++ // a valid message for an id nobody answers to: a dead letter, not a delivery
		}
		cands = append(cands, cd)
	}
	// every delivery must match a valid candidate, in order, at most once each
	j := 0
	for di, d := range got {
		matched := false
		for ; j < len(cands); j++ {
			cd := cands[j]
			if cd.msg == nil {
				continue
			}
			if cd.target == d.TargetID && protoEqualAny(cd.msg, d.Msg) {
				if d.Sender != nil && !(cd.senderV && samePID(cd.sender, d.Sender)) {
					res.violate("delivery #%d at %q carries sender %v; the message's sender index names %v (valid=%v)", di, d.TargetID, d.Sender, cd.sender, cd.senderV)
				}
				if d.Sender == nil && cd.senderV && cd.sender != nil {
					res.violate("delivery #%d at %q lost its (valid) sender %v", di, d.TargetID, cd.sender)
				}
				matched = true
				j++
				break
			}
		}
		if !matched {
			res.violate("delivery #%d (%T at %q) does not correspond to any message of the envelope with valid type/target indices, in order: a message reached an actor it was not addressed to, or a phantom message was delivered", di, d.Msg, d.TargetID)
			return
		}
	}
	_ = unregistered
	if senderAmbiguous {
		return
	}
	if nBad == 0 && rerr == nil && len(got) != nValid {
		res.violate("a fully valid envelope with %d messages led to %d deliveries", nValid, len(got))
	}
	if nBad == 0 && rerr != nil {
		res.violate("a fully valid envelope was rejected: %v", rerr)
	}
	return
}

func describeEnv(env *remote.Envelope) map[string]any {
	var ms []string
	for _, m := range env.Messages {
		if m == nil {
			ms = append(ms, "nil")
			continue
		}
		ms = append(ms, fmt.Sprintf("{type:%d target:%d sender:%d data:%d bytes}", m.TypeNameIndex, m.TargetIndex, m.SenderIndex, len(m.Data)))
	}
	var ts, ss []string
	for _, t := range env.Targets {
		ts = append(ts, pidStr(t))
	}
	for _, s := range env.Senders {
		ss = append(ss, pidStr(s))
	}
	return map[string]any{"typeNames": env.TypeNames, "targets": ts, "senders": ss, "messages": ms}
}

func c16Struct(c *caseCtx) (res caseResult) {
	if !exportAvailable {
		res.count("struct_mode_unavailable", 1)
		return
	}
	e, err := actor.NewEngine(actor.NewEngineConfig())
	if err != nil {
		res.inconclusive("engine: %v", err)
		return
	}
	lg := registerTargets(e, "local", c16TargetIDs)
	env, defects := hostileEnvelope(c.rng)
	var rerr error
	if p := catchPanic(func() { rerr = readerReceive(e, &feedStream{envs: []*remote.Envelope{env}}) }); p != "" {
		res.violate("streamReader.Receive panicked (on a node this runs on a dRPC server goroutine without recover: the process dies): %s", p)
		res.Sample = map[string]any{"envelope": describeEnv(env), "defects": defects}
		return
	}
	nValid, nBad := c16Judge(&res, env, lg.snapshot(), rerr)
	res.count("envelopes", 1)
	res.count("valid_messages", int64(nValid))
	res.count("bad_messages", int64(nBad))
	res.count("deliveries", int64(len(lg.snapshot())))
	if rerr != nil {
		res.count("streams_ended_with_error", 1)
	}
	if len(defects) > 0 {
		res.Sig = sigHash("struct", fmt.Sprint(defects))
	}
	res.Desc = fmt.Sprintf("struct messages=%d defects=%v", len(env.Messages), defects)
	if c.n < 3 || res.Verdict == vViolated {
		res.Sample = map[string]any{"envelope": describeEnv(env), "defects": defects, "deliveries": describeDeliveries(lg.snapshot()), "receive_error": fmt.Sprint(rerr)}
	}
	return res
}

func validEnvelopeBytes(r *rand.Rand) []byte {
	env := &remote.Envelope{}
	nT := 1 + r.Intn(3)
	for i := 0; i < nT; i++ {
		env.Targets = append(env.Targets, actor.NewPID("local", c16TargetIDs[r.Intn(len(c16TargetIDs))]))
	}
	nS := r.Intn(3)
	for i := 0; i < nS; i++ {
		env.Senders = append(env.Senders, actor.NewPID("peer", fmt.Sprintf("s/%d", i)))
	}
	env.TypeNames = []string{"remote.TestMessage", "actor.PID"}
	for i := 0; i < 1+r.Intn(6); i++ {
		m := &remote.Message{TargetIndex: int32(r.Intn(nT)), TypeNameIndex: int32(r.Intn(2)), SenderIndex: -1}
		if nS > 0 && r.Intn(2) == 0 {
			m.SenderIndex = int32(r.Intn(nS))
		}
		if m.TypeNameIndex == 0 {
			m.Data, _ = (&remote.TestMessage{Data: []byte(fmt.Sprintf("b%d", i))}).MarshalVT()
		} else {
			m.Data, _ = (&actor.PID{Address: "a", ID: fmt.Sprint(i)}).MarshalVT()
		}
		env.Messages = append(env.Messages, m)
	}
	b, _ := env.MarshalVT()
	return b
}

func mutateBytes(r *rand.Rand, b []byte) ([]byte, string) {
	out := append([]byte(nil), b...)
	switch r.Intn(6) {
	case 0:
		return out, "unchanged"
	case 1:
		n := 1 + r.Intn(4)
		for i := 0; i < n && len(out) > 0; i++ {
			out[r.Intn(len(out))] ^= 1 << uint(r.Intn(8))
		}
		return out, "bitflips"
	case 2:
		if len(out) > 1 {
			out = out[:r.Intn(len(out))]
		}
		return out, "truncated"
	case 3:
		if len(out) > 0 {
			p := r.Intn(len(out))
			ins := make([]byte, 1+r.Intn(6))
			r.Read(ins)
			out = append(out[:p], append(ins, out[p:]...)...)
		}
		return out, "splice"
	case 4:
		n := 1 + r.Intn(3)
		for i := 0; i < n && len(out) > 0; i++ {
			out[r.Intn(len(out))] = byte(r.Intn(256))
		}
		return out, "bytes-replaced"
	default:
		out = make([]byte, r.Intn(64))
		r.Read(out)
		return out, "random"
	}
}

func c16Bytes(c *caseCtx) (res caseResult) {
	if !exportAvailable {
		res.count("bytes_mode_unavailable", 1)
		return
	}
	e, err := actor.NewEngine(actor.NewEngineConfig())
	if err != nil {
		res.inconclusive("engine: %v", err)
		return
	}
	lg := registerTargets(e, "local", c16TargetIDs)
	b, how := mutateBytes(c.rng, validEnvelopeBytes(c.rng))
	env := &remote.Envelope{}
	var uerr error
	if p := catchPanic(func() { uerr = env.UnmarshalVT(b) }); p != "" {
		res.violate("Envelope.UnmarshalVT panicked on %d bytes (%s): %s", len(b), how, p)
		res.Sample = map[string]any{"bytes_hex": fmt.Sprintf("%x", b)}
		return
	}
	res.count("byte_strings", 1)
	res.Desc = fmt.Sprintf("bytes len=%d mutation=%s decodes=%v", len(b), how, uerr == nil)
	if uerr != nil {
		res.count("rejected_by_decoder", 1)
		res.Sig = sigHash("bytes-rejected", how, len(b)%8)
		return
	}
	var rerr error
	if p := catchPanic(func() { rerr = readerReceive(e, &feedStream{envs: []*remote.Envelope{env}}) }); p != "" {
		res.violate("streamReader.Receive panicked on an envelope decoded from %d bytes (%s): %s", len(b), how, p)
		res.Sample = map[string]any{"bytes_hex": fmt.Sprintf("%x", b), "envelope": describeEnv(env)}
		return
	}
	_, nBad := c16Judge(&res, env, lg.snapshot(), rerr)
	res.count("decoded_envelopes", 1)
	if nBad > 0 || how != "unchanged" {
		res.Sig = sigHash("bytes", how, nBad, len(env.Messages))
	}
	if c.n < 2 || res.Verdict == vViolated {
		res.Sample = map[string]any{"bytes_hex": fmt.Sprintf("%x", b), "mutation": how, "envelope": describeEnv(env), "deliveries": describeDeliveries(lg.snapshot())}
	}
	return res
}

// ---- end to end ----------------------------------------------------------

type rawEnc struct{}

func (rawEnc) Marshal(msg drpc.Message) ([]byte, error) { return msg.([]byte), nil }
func (rawEnc) Unmarshal(buf []byte, msg drpc.Message) error {
	return nil
}

func c16E2E(c *caseCtx) (res caseResult) {
	r := c.rng
	wd := watchdog(c.tier)
	addrs := freeAddrs(c, 2)
	rm := remote.New(addrs[0], remote.NewConfig())
	e, err := actor.NewEngine(actor.NewEngineConfig().WithRemote(rm))
	if err != nil {
		res.inconclusive("engine: %v", err)
		return
	}
	defer func() { rm.Stop().Wait() }()
	lg := registerTargets(e, addrs[0], append(append([]string(nil), c16TargetIDs...), "probe"))
	// the attacked node has talked to a peer before: it owns a stream writer whose PID (stream/<peer address>)
	// anybody can guess and address
	r2 := remote.New(addrs[1], remote.NewConfig())
	e2, err := actor.NewEngine(actor.NewEngineConfig().WithRemote(r2))
	if err != nil {
		res.inconclusive("second engine: %v", err)
		return
	}
	defer func() { r2.Stop().Wait() }()
	lg2 := registerTargets(e2, addrs[1], []string{"hello"})
	e.Send(actor.NewPID(addrs[1], "hello"), &remote.TestMessage{Data: []byte("hello")})
	if !waitFor(wd, func() bool { return len(lg2.snapshot()) > 0 }) {
		res.inconclusive("the two nodes could not talk to each other")
		return
	}
	writerID := "stream/" + addrs[1]
	// the node has a request outstanding at the peer; the (hostile) peer answers it twice in one envelope
	resp := e.Request(actor.NewPID(addrs[1], "hello"), &remote.TestMessage{Data: []byte("a request")}, 20*time.Second)
	var respPID *actor.PID
	if waitFor(wd, func() bool {
		for _, d := range lg2.snapshot() {
			if tm, ok := d.Msg.(*remote.TestMessage); ok && string(tm.Data) == "a request" && d.Sender != nil {
				respPID = d.Sender
				return true
			}
		}
		return false
	}) {
		rep, _ := (&remote.TestMessage{Data: []byte("reply")}).MarshalVT()
		env := &remote.Envelope{Targets: []*actor.PID{respPID}, TypeNames: []string{"remote.TestMessage"},
			Messages: []*remote.Message{{Data: rep, SenderIndex: -1}, {Data: rep, SenderIndex: -1}}}
		payload, _ := env.MarshalVT()
		if conn, err := net.DialTimeout("tcp", addrs[0], 5*time.Second); err == nil {
			dc := drpcconn.New(conn)
			ctx, cancel := context.WithTimeout(context.Background(), 5*time.Second)
			if st, err := dc.NewStream(ctx, "/remote.Remote/Receive", rawEnc{}); err == nil {
				_ = st.MsgSend(payload, rawEnc{})
			}
			got := make(chan error, 1)
			go func() { _, err := resp.Result(); got <- err }()
			select {
			case err := <-got:
				if err != nil {
					res.violate("a request answered (twice) by the peer returned %v", err)
				}
			case <-time.After(wd):
				res.inconclusive("Result() of the doubly answered request did not return")
			}
			cancel()
			dc.Close()
		}
	}
	// in half of the cases the node is, all the while, trying to reach a peer that is not there: its
	// stream writer for that address exists (and is addressable) before it has a connection
	writerIDs := []string{writerID}
	if c.n%2 == 0 {
		gone := freeAddrs(c, 3)[2]
		e.Send(actor.NewPID(gone, "nobody"), &remote.TestMessage{Data: []byte("into the void")})
		time.Sleep(50 * time.Millisecond)
		writerIDs = append(writerIDs, "stream/"+gone)
	}
	nIn := 30
	kinds := map[string]int{}
	for i := 0; i < nIn; i++ {
		switch r.Intn(3) {
		case 0:
			// raw TCP garbage
			conn, err := net.DialTimeout("tcp", addrs[0], 5*time.Second)
			if err != nil {
				res.violate("input %d: the node no longer accepts connections: %v", i, err)
				return
			}
			g := make([]byte, 1+r.Intn(200))
			r.Read(g)
			conn.SetWriteDeadline(time.Now().Add(2 * time.Second))
			conn.Write(g)
			conn.Close()
			kinds["tcp-garbage"]++
		default:
			// hostile dRPC client: valid framing, hostile envelope bytes
			var payload []byte
			if r.Intn(2) == 0 {
				env, _ := hostileEnvelope(r)
				// nil entries cannot be marshalled; drop them for the wire
				var ms []*remote.Message
				for _, m := range env.Messages {
					if m != nil {
						ms = append(ms, m)
					}
				}
				env.Messages = ms
				for i := range env.Senders {
					if env.Senders[i] == nil {
						env.Senders[i] = &actor.PID{} // (an empty slot cannot go over the wire)
					}
				}
				for i := range env.Targets {
					if env.Targets[i] == nil {
						env.Targets[i] = &actor.PID{}
					}
					env.Targets[i].Address = addrs[0]
					if r.Intn(3) == 0 {
						env.Targets[i].ID = writerIDs[r.Intn(len(writerIDs))] // an internal actor of the node
						kinds["addressed-to-stream-writer"]++
						if env.Targets[i].ID != writerID {
							kinds["addressed-to-a-writer-that-is-still-dialing"]++
						}
					}
				}
				payload, _ = env.MarshalVT()
				kinds["drpc-hostile-envelope"]++
			} else {
				payload, _ = mutateBytes(r, validEnvelopeBytes(r))
				kinds["drpc-mutated-bytes"]++
			}
			conn, err := net.DialTimeout("tcp", addrs[0], 5*time.Second)
			if err != nil {
				res.violate("input %d: the node no longer accepts connections: %v", i, err)
				return
			}
			dc := drpcconn.New(conn)
			ctx, cancel := context.WithTimeout(context.Background(), 5*time.Second)
			st, err := dc.NewStream(ctx, "/remote.Remote/Receive", rawEnc{})
			if err == nil {
				_ = st.MsgSend(payload, rawEnc{})
				// a valid probe-like message behind it on the same stream may or may not get through
				_ = st.CloseSend()
			}
			time.Sleep(time.Duration(r.Intn(3)) * time.Millisecond)
			cancel()
			dc.Close()
		}
	}
	// the node must still be alive: an honest peer delivers a probe, and the node can still send
	probe := &remote.TestMessage{Data: []byte("verif-probe")}
	e2.Send(actor.NewPID(addrs[0], "probe"), probe)
	e.Send(actor.NewPID(addrs[1], "hello"), &remote.TestMessage{Data: []byte("hello again")})
	ok := waitFor(wd, func() bool {
		for _, d := range lg.snapshot() {
			if d.TargetID == "probe" {
				return true
			}
		}
		return false
	})
	if !ok {
		res.violate("after %d hostile inputs a fresh connection no longer delivers a probe to the node", nIn)
	}
	if !waitFor(wd, func() bool { return len(lg2.snapshot()) >= 2 }) {
		res.violate("after %d hostile inputs the node can no longer send to its peer (outbound stream writer dead?)", nIn)
	}
	// deliveries at the ordinary targets must be explainable: the payload types we ever put on the wire
	for _, d := range lg.snapshot() {
		switch d.Msg.(type) {
		case *remote.TestMessage, *actor.PID, *actor.Ping, *cluster.Member:
		default:
			res.violate("a delivery of type %T reached %q although no envelope named such a payload", d.Msg, d.TargetID)
		}
	}
	res.Desc = fmt.Sprintf("e2e hostile inputs=%d %v", nIn, kinds)
	res.count("hostile_inputs_over_tcp", int64(nIn))
	res.Sig = sigHash("e2e", fmt.Sprint(kinds))
	if c.n < 1 || res.Verdict == vViolated {
		res.Sample = map[string]any{"scenario": res.Desc, "deliveries": len(lg.snapshot())}
	}
	return res
}
