package main

// C14 — RingBuffer is an unbounded, linearizable FIFO queue.
//
// Three monitors over the real ringbuffer package:
//   seq     sequential differential check against a slice model after every
//           operation (exact results), with directed construction of every head
//           position at the moment of growth;
//   lin     concurrent histories with unique values, recorded at the call
//           boundary and checked for linearizability by porcupine against a
//           FIFO model with Push/Pop/PopN/Len;
//   stress  long concurrent runs in the -race build: conservation,
//           exactly-once, per-producer order within each consumer, Len bounds;
//           any race-detector report is a violation.

import (
	"fmt"
	"math/rand"
	"sort"
	"strings"
	"sync"
	"sync/atomic"
	"time"

	"github.com/anishathalye/porcupine"
	"github.com/anthdm/hollywood/ringbuffer"
)

func init() {
	register(&prop{
		id:    "C14",
		level: "exploration",
		rule: "seq: PRNG/directed operation sequences (Push/Pop/PopN/Len) on rings of initial capacity 1..17,64,1024, every result compared with a slice model; a case is non-trivial if the ring grew at least once, distinct by (initial capacity, head positions at each growth, whether PopN crossed the wrap). " +
			"lin: concurrent histories (2-4 goroutines, <=6 ops each plus a sequential prefix and a final drain, unique values) checked by porcupine; distinct by the recorded history's call/return order. stress: -race runs, distinct by (producers, consumers, capacity).",
		assumptions: []string{
			"the ring's geometry (head/tail/mod) is mirrored arithmetically only to MEASURE which growth geometries were covered; the oracle itself uses only the public results",
			"New(0) and PopN(n<=0) are outside the property's statement and are not generated",
			"a porcupine timeout is reported as inconclusive, never as a violation",
		},
		modes: func(tier string, seed int64) []modeSpec {
			if tier == "thorough" {
				return []modeSpec{
					{name: "seq", n: 100000, perChild: 6250, timeout: 30 * time.Minute},
					{name: "lin", n: 80000, perChild: 5000, timeout: 30 * time.Minute, env: []string{"VERIF_HOOK=chaos", "VERIF_HOOK_PROB=40", "VERIF_HOOK_MAXUS=20"}},
					{name: "stress", n: 480, perChild: 30, race: true, timeout: 30 * time.Minute, env: []string{"VERIF_HOOK=chaos", "VERIF_HOOK_PROB=10", "VERIF_HOOK_MAXUS=5"}},
					{name: "never-empty", n: 320, perChild: 20, timeout: 30 * time.Minute},
				}
			}
			return []modeSpec{
				{name: "seq", n: 4000, perChild: 250, timeout: 5 * time.Minute},
				{name: "lin", n: 2400, perChild: 150, timeout: 5 * time.Minute, env: []string{"VERIF_HOOK=chaos", "VERIF_HOOK_PROB=40", "VERIF_HOOK_MAXUS=20"}},
				{name: "stress", n: 48, perChild: 3, race: true, timeout: 10 * time.Minute, env: []string{"VERIF_HOOK=chaos", "VERIF_HOOK_PROB=10", "VERIF_HOOK_MAXUS=5"}},
				{name: "never-empty", n: 32, perChild: 2, timeout: 10 * time.Minute},
			}
		},
		run: func(c *caseCtx) caseResult {
			switch c.mode {
			case "seq":
				return c14Seq(c)
			case "lin":
				return c14Lin(c)
			case "never-empty":
				return c14NeverEmpty(c)
			default:
				return c14Stress(c)
			}
		},
		minDistinct: 20,
		post: func(a *aggregate) {
			ok, unk := a.counters["porcupine_ok"], a.counters["porcupine_unknown"]
			if unk*20 > ok+unk {
				a.inconclusive = append(a.inconclusive, caseResult{Verdict: vInconclusive, Case: -1, Mode: "lin",
					Detail: fmt.Sprintf("porcupine timed out on %d of %d histories (more than 5%%)", unk, ok+unk)})
			}
		},
	})
}

type heldBatch struct{ got, want []int }

// geometry mirror, for coverage measurement only
type ringGeo struct {
	head, tail, mod int64
	growHeads       []int64
	wrapPopN        bool
}

func (g *ringGeo) push() {
	g.tail = (g.tail + 1) % g.mod
	if g.tail == g.head {
		g.growHeads = append(g.growHeads, g.head)
		g.head, g.tail, g.mod = 0, g.mod, g.mod*2
	}
}
func (g *ringGeo) pop(n int64) {
	if n > 1 && g.head+n >= g.mod {
		g.wrapPopN = true
	}
	g.head = (g.head + n) % g.mod
}

var c14Caps = []int64{1, 2, 3, 4, 5, 6, 7, 8, 9, 10, 11, 12, 13, 14, 15, 16, 17, 64, 1024}

func c14Seq(c *caseCtx) (res caseResult) {
	r := c.rng
	capIdx := c.n % len(c14Caps)
	capa := c14Caps[capIdx]
	rb := ringbuffer.New[int](capa)
	geo := &ringGeo{mod: capa}
	var model []int
	var held []heldBatch
	next := 1
	var script []string
	log := func(s string) {
		if len(script) < 400 {
			script = append(script, s)
		}
	}
	fail := func(format string, a ...any) caseResult {
		res.violate(format, a...)
		res.Sample = map[string]any{"capacity": capa, "ops": script}
		res.Desc = fmt.Sprintf("seq cap=%d", capa)
		return res
	}
	checkLen := func() bool {
		return rb.Len() == int64(len(model))
	}
	push := func() {
		v := next
		next++
		rb.Push(v)
		model = append(model, v)
		geo.push()
		log(fmt.Sprintf("Push(%d)", v))
	}
	pop := func() (string, bool) {
		v, ok := rb.Pop()
		if len(model) == 0 {
			log("Pop()=_,false")
			if ok {
				return fmt.Sprintf("Pop on an empty queue returned (%d,true)", v), false
			}
			return "", true
		}
		exp := model[0]
		model = model[1:]
		geo.pop(1)
		log(fmt.Sprintf("Pop()=%d,%v", v, ok))
		if !ok || v != exp {
			return fmt.Sprintf("Pop returned (%d,%v), model expects (%d,true)", v, ok, exp), false
		}
		return "", true
	}
	popn := func(n int64) (string, bool) {
		items, ok := rb.PopN(n)
		if len(model) == 0 {
			log(fmt.Sprintf("PopN(%d)=_,false", n))
			if ok || len(items) != 0 {
				return fmt.Sprintf("PopN(%d) on an empty queue returned (%v,%v)", n, items, ok), false
			}
			return "", true
		}
		k := int(n)
		if k > len(model) {
			k = len(model)
		}
		exp := model[:k]
		log(fmt.Sprintf("PopN(%d)=%v,%v", n, items, ok))
		if !ok || len(items) != k {
			return fmt.Sprintf("PopN(%d) returned %d items ok=%v, model expects the first %d: %v", n, len(items), ok, k, exp), false
		}
		for i := range exp {
			if items[i] != exp[i] {
				return fmt.Sprintf("PopN(%d) returned %v, model expects %v", n, items, exp), false
			}
		}
		model = model[k:]
		geo.pop(int64(k))
		// the batch handed out belongs to the caller: it is kept and compared again later
		held = append(held, heldBatch{got: items, want: append([]int(nil), exp...)})
		if len(held) > 6 {
			held = held[1:]
		}
		return "", true
	}
	recheckHeld := func() string {
		for _, h := range held {
			for i := range h.want {
				if h.got[i] != h.want[i] {
					return fmt.Sprintf("a batch returned by PopN earlier (%v) changed under the caller's hands to %v after further pushes: popped elements must stay popped", h.want, h.got)
				}
			}
		}
		return ""
	}
	// directed prefix: put the head at a chosen position before growth
	if c.n%3 != 2 {
		h := int64(0)
		if capa > 1 {
			h = int64(c.n/len(c14Caps)) % capa
		}
		for i := int64(0); i < h; i++ {
			push()
			if msg, ok := pop(); !ok {
				return fail("%s", msg)
			}
		}
		// fill to (and beyond) growth
		fill := int(capa) + r.Intn(int(capa)+2)
		for i := 0; i < fill; i++ {
			push()
			if !checkLen() {
				return fail("Len()=%d after push, model has %d", rb.Len(), len(model))
			}
		}
	}
	nops := 40 + r.Intn(200)
	if capa >= 64 {
		nops += 3 * int(capa)
	}
	pPush := 35 + r.Intn(40)
	for i := 0; i < nops; i++ {
		x := r.Intn(100)
		switch {
		case x < pPush:
			burst := 1
			if r.Intn(8) == 0 {
				burst = 1 + r.Intn(int(capa)*2+2)
			}
			for b := 0; b < burst; b++ {
				push()
			}
		case x < pPush+(100-pPush)/2:
			if msg, ok := pop(); !ok {
				return fail("%s", msg)
			}
		default:
			l := int64(len(model))
			n := pick(r, 1, 2, l-1, l, l+1, 4096, 1+int64(r.Intn(int(l)+3)))
			if n <= 0 {
				n = 1
			}
			if msg, ok := popn(n); !ok {
				return fail("%s", msg)
			}
		}
		if !checkLen() {
			return fail("Len()=%d, model has %d elements", rb.Len(), len(model))
		}
		if msg := recheckHeld(); msg != "" {
			return fail("%s", msg)
		}
		if rb.Len() < 0 {
			return fail("Len() negative: %d", rb.Len())
		}
	}
	// drain completely: everything comes out once, in order
	for len(model) > 0 {
		var msg string
		var ok bool
		if r.Intn(2) == 0 {
			msg, ok = pop()
		} else {
			msg, ok = popn(int64(1 + r.Intn(len(model)+2)))
		}
		if !ok {
			return fail("%s", msg)
		}
	}
	if msg, ok := pop(); !ok {
		return fail("%s", msg)
	}
	if msg, ok := popn(3); !ok {
		return fail("%s", msg)
	}
	if !checkLen() {
		return fail("Len()=%d on the drained queue", rb.Len())
	}
	res.count("ops", int64(len(script)))
	res.count("growths", int64(len(geo.growHeads)))
	if geo.wrapPopN {
		res.count("popn_across_wrap", 1)
	}
	if len(geo.growHeads) > 0 {
		res.Sig = sigHash("seq", capa, geo.growHeads, geo.wrapPopN)
	}
	if c.n < 2 {
		res.Sample = map[string]any{"capacity": capa, "ops": script, "head_at_growth": geo.growHeads}
	}
	res.Desc = fmt.Sprintf("seq cap=%d growths=%v", capa, geo.growHeads)
	return res
}

// ---- linearizability ------------------------------------------------------

type qIn struct {
	Op string // push pop popn len
	V  int
	N  int64
}
type qOut struct {
	Vals []int
	OK   bool
	Len  int64
}

func qModel() porcupine.Model {
	return porcupine.Model{
		Init: func() interface{} { return "" },
		Step: func(state, input, output interface{}) (bool, interface{}) {
			st := decodeQ(state.(string))
			in := input.(qIn)
			out := output.(qOut)
			switch in.Op {
			case "push":
				return true, encodeQ(append(st, in.V))
			case "pop":
				if len(st) == 0 {
					return !out.OK, state
				}
				if !out.OK || len(out.Vals) != 1 || out.Vals[0] != st[0] {
					return false, state
				}
				return true, encodeQ(st[1:])
			case "popn":
				if len(st) == 0 {
					return !out.OK && len(out.Vals) == 0, state
				}
				k := int(in.N)
				if k > len(st) {
					k = len(st)
				}
				if !out.OK || len(out.Vals) != k {
					return false, state
				}
				for i := 0; i < k; i++ {
					if out.Vals[i] != st[i] {
						return false, state
					}
				}
				return true, encodeQ(st[k:])
			default: // len
				return out.Len == int64(len(st)), state
			}
		},
		Equal: func(a, b interface{}) bool { return a.(string) == b.(string) },
		DescribeOperation: func(in, out interface{}) string {
			return fmt.Sprintf("%+v -> %+v", in, out)
		},
	}
}

func encodeQ(q []int) string {
	var sb strings.Builder
	for _, v := range q {
		fmt.Fprintf(&sb, "%d,", v)
	}
	return sb.String()
}
func decodeQ(s string) []int {
	if s == "" {
		return nil
	}
	parts := strings.Split(strings.TrimSuffix(s, ","), ",")
	out := make([]int, len(parts))
	for i, p := range parts {
		fmt.Sscanf(p, "%d", &out[i])
	}
	return out
}

func c14Lin(c *caseCtx) (res caseResult) {
	r := c.rng
	capa := pick(r, int64(1), 1, 2, 2, 3, 4, 5, 8)
	rb := ringbuffer.New[int](capa)
	nG := 2 + r.Intn(3)
	var clock int64
	type plan struct{ ops []qIn }
	plans := make([]plan, nG)
	// a few elements pushed sequentially first, so that pops have something to take and growth may already have happened
	pre := r.Intn(4)
	var ops []porcupine.Operation
	next := 1
	for i := 0; i < pre; i++ {
		t0 := atomic.AddInt64(&clock, 1)
		rb.Push(next)
		t1 := atomic.AddInt64(&clock, 1)
		ops = append(ops, porcupine.Operation{ClientId: 0, Input: qIn{Op: "push", V: next}, Call: t0, Output: qOut{}, Return: t1})
		next++
	}
	for g := 0; g < nG; g++ {
		k := 2 + r.Intn(5)
		role := r.Intn(3) // 0 producer-heavy, 1 consumer-heavy, 2 mixed
		for i := 0; i < k; i++ {
			x := r.Intn(100)
			pushP := []int{75, 20, 45}[role]
			switch {
			case x < pushP:
				plans[g].ops = append(plans[g].ops, qIn{Op: "push", V: next})
				next++
			case x < pushP+(100-pushP)*4/10:
				plans[g].ops = append(plans[g].ops, qIn{Op: "pop"})
			case x < pushP+(100-pushP)*8/10:
				plans[g].ops = append(plans[g].ops, qIn{Op: "popn", N: int64(1 + r.Intn(4))})
			default:
				plans[g].ops = append(plans[g].ops, qIn{Op: "len"})
			}
		}
	}
	results := make([][]porcupine.Operation, nG)
	var wg sync.WaitGroup
	startCh := make(chan struct{})
	for g := 0; g < nG; g++ {
		g := g
		wg.Add(1)
		go func() {
			defer wg.Done()
			<-startCh
			for _, in := range plans[g].ops {
				var out qOut
				t0 := atomic.AddInt64(&clock, 1)
				switch in.Op {
				case "push":
					rb.Push(in.V)
				case "pop":
					v, ok := rb.Pop()
					out.OK = ok
					if ok {
						out.Vals = []int{v}
					}
				case "popn":
					vs, ok := rb.PopN(in.N)
					out.OK = ok
					out.Vals = vs
				case "len":
					out.Len = rb.Len()
				}
				t1 := atomic.AddInt64(&clock, 1)
				results[g] = append(results[g], porcupine.Operation{ClientId: g + 1, Input: in, Call: t0, Output: out, Return: t1})
			}
		}()
	}
	close(startCh)
	wg.Wait()
	for g := range results {
		ops = append(ops, results[g]...)
	}
	// final sequential drain, part of the history: everything left comes out
	for {
		t0 := atomic.AddInt64(&clock, 1)
		vs, ok := rb.PopN(4096)
		t1 := atomic.AddInt64(&clock, 1)
		ops = append(ops, porcupine.Operation{ClientId: 0, Input: qIn{Op: "popn", N: 4096}, Call: t0, Output: qOut{Vals: vs, OK: ok}, Return: t1})
		if !ok {
			break
		}
	}
	t0 := atomic.AddInt64(&clock, 1)
	l := rb.Len()
	t1 := atomic.AddInt64(&clock, 1)
	ops = append(ops, porcupine.Operation{ClientId: 0, Input: qIn{Op: "len"}, Call: t0, Output: qOut{Len: l}, Return: t1})

	verdict, info := porcupine.CheckOperationsVerbose(qModel(), ops, 5*time.Second)
	_ = info
	sort.Slice(ops, func(i, j int) bool { return ops[i].Call < ops[j].Call })
	var hist []string
	var order strings.Builder
	overlap := 0
	maxRet := int64(0)
	for _, o := range ops {
		hist = append(hist, fmt.Sprintf("c%d [%d,%d] %+v -> %+v", o.ClientId, o.Call, o.Return, o.Input, o.Output))
		fmt.Fprintf(&order, "%d:%s:%d;", o.ClientId, o.Input.(qIn).Op, o.Return-o.Call)
		if o.Call < maxRet {
			overlap++
		}
		if o.Return > maxRet {
			maxRet = o.Return
		}
	}
	res.count("history_ops", int64(len(ops)))
	res.count("overlapping_ops", int64(overlap))
	res.Desc = fmt.Sprintf("lin cap=%d goroutines=%d ops=%d overlapping=%d", capa, nG, len(ops), overlap)
	switch verdict {
	case porcupine.Ok:
		res.count("porcupine_ok", 1)
	case porcupine.Illegal:
		res.count("porcupine_illegal", 1)
		res.violate("history is not linearizable w.r.t. the FIFO model (porcupine: Illegal)")
		res.Sample = map[string]any{"capacity": capa, "history": hist}
	default:
		// a checker timeout decides nothing about this history; the run as a whole is
		// inconclusive only if too many histories end like this (see post)
		res.count("porcupine_unknown", 1)
		overlap = 0
	}
	if overlap > 0 {
		res.Sig = sigHash("lin", capa, order.String())
	}
	if c.n < 2 && res.Sample == nil {
		res.Sample = map[string]any{"capacity": capa, "history": hist, "porcupine": "Ok"}
	}
	return res
}

// ---- stress (race build) -----------------------------------------------------

func c14Stress(c *caseCtx) (res caseResult) {
	r := c.rng
	capa := pick(r, int64(1), 2, 3, 8, 64, 1024)
	nP := 1 + r.Intn(6)
	nC := 1 + r.Intn(4)
	per := 2000 + r.Intn(6000)
	if c.thorough() {
		per *= 3
	}
	rb := ringbuffer.New[[2]int](capa)
	total := nP * per
	var consumed int64
	var wg sync.WaitGroup
	logs := make([][][2]int, nC)
	var lenBad int64
	stop := make(chan struct{})
	// Len poller
	var pwg sync.WaitGroup
	pwg.Add(1)
	go func() {
		defer pwg.Done()
		for {
			select {
			case <-stop:
				return
			default:
			}
			l := rb.Len()
			if l < 0 || l > int64(total) {
				atomic.StoreInt64(&lenBad, l|1<<62)
			}
			time.Sleep(10 * time.Microsecond)
		}
	}()
	for p := 0; p < nP; p++ {
		p := p
		wg.Add(1)
		go func() {
			defer wg.Done()
			for i := 0; i < per; i++ {
				rb.Push([2]int{p, i})
			}
		}()
	}
	deadline := time.Now().Add(watchdog(c.tier) * 2)
	hung := int32(0)
	for k := 0; k < nC; k++ {
		k := k
		usePopN := r.Intn(2) == 0
		nn := int64(1 + r.Intn(64))
		wg.Add(1)
		go func() {
			defer wg.Done()
			spins := 0
			for atomic.LoadInt64(&consumed) < int64(total) {
				if usePopN {
					vs, ok := rb.PopN(nn)
					if ok {
						logs[k] = append(logs[k], vs...)
						atomic.AddInt64(&consumed, int64(len(vs)))
						continue
					}
				} else {
					v, ok := rb.Pop()
					if ok {
						logs[k] = append(logs[k], v)
						atomic.AddInt64(&consumed, 1)
						continue
					}
				}
				spins++
				if spins%1024 == 0 && time.Now().After(deadline) {
					atomic.StoreInt32(&hung, 1)
					return
				}
			}
		}()
	}
	wg.Wait()
	close(stop)
	pwg.Wait()
	res.Desc = fmt.Sprintf("stress cap=%d producers=%d consumers=%d per=%d", capa, nP, nC, per)
	res.Sig = sigHash("stress", capa, nP, nC)
	res.count("stress_elements", int64(total))
	if lb := atomic.LoadInt64(&lenBad); lb != 0 {
		res.violate("Len() out of bounds during the run: %d", lb&^(1<<62))
	}
	seen := make(map[[2]int]int, total)
	for k := range logs {
		last := make([]int, nP)
		for i := range last {
			last[i] = -1
		}
		for _, v := range logs[k] {
			seen[v]++
			if v[0] < 0 || v[0] >= nP {
				res.violate("consumer %d popped an element nobody pushed: %v", k, v)
				continue
			}
			if v[1] <= last[v[0]] {
				res.violate("consumer %d saw producer %d's elements out of order: %d after %d", k, v[0], v[1], last[v[0]])
			}
			last[v[0]] = v[1]
		}
	}
	dups, missing := 0, 0
	for p := 0; p < nP; p++ {
		for i := 0; i < per; i++ {
			switch n := seen[[2]int{p, i}]; {
			case n == 0:
				missing++
			case n > 1:
				dups++
			}
		}
	}
	if atomic.LoadInt32(&hung) != 0 && missing > 0 {
		// every producer has returned, the queue reports empty, elements are missing: decided on state
		if rb.Len() == 0 {
			res.violate("%d pushed elements never came out although all pushes returned and the queue is empty (Len()=0)", missing)
		} else {
			res.inconclusive("consumers gave up after the watchdog with Len()=%d", rb.Len())
		}
	} else if missing > 0 || dups > 0 {
		res.violate("conservation broken: %d elements missing, %d popped more than once (of %d pushed)", missing, dups, total)
	}
	if l := rb.Len(); l != 0 && missing == 0 {
		res.violate("Len()=%d after everything was popped", l)
	}
	if res.Verdict == vViolated {
		res.Sample = map[string]any{"capacity": capa, "producers": nP, "consumers": nC, "per_producer": per}
	} else if c.n == 0 {
		res.Sample = map[string]any{"capacity": capa, "producers": nP, "consumers": nC, "per_producer": per, "popped": total}
	}
	return res
}

var _ = rand.Int

// c14NeverEmpty: M elements are queued, then K consumers make exactly M PopN(1)/Pop calls between
// them while a producer keeps pushing (so the backing array doubles under their feet). Whenever one
// of those calls runs, fewer than M elements can have been taken, so the queue is not empty: every
// single call must report true and hand over one element. "False exactly when the queue is empty"
// thereby becomes checkable under contention without knowing the interleaving.
func c14NeverEmpty(c *caseCtx) (res caseResult) {
	r := c.rng
	capa := pick(r, int64(1), 8, 1024)
	M := pick(r, 20000, 100000, 400000)
	K := 2 + r.Intn(6)
	rb := ringbuffer.New[int](capa)
	for i := 0; i < M; i++ {
		rb.Push(i)
	}
	// the array is now a power-of-two multiple of capa just above M; the producer's pushes make it double
	// (a copy of the whole array under the buffer's lock) while the consumers are at work
	extra := M + M/2
	var falses, wrong int64
	var wg sync.WaitGroup
	wg.Add(1)
	go func() {
		defer wg.Done()
		for i := 0; i < extra; i++ {
			rb.Push(M + i)
		}
	}()
	per := M / K
	for k := 0; k < K; k++ {
		usePopN := (k+c.n)%2 == 0
		wg.Add(1)
		go func() {
			defer wg.Done()
			for i := 0; i < per; i++ {
				if usePopN {
					vs, ok := rb.PopN(1)
					if !ok {
						atomic.AddInt64(&falses, 1)
					} else if len(vs) != 1 {
						atomic.AddInt64(&wrong, 1)
					}
				} else if _, ok := rb.Pop(); !ok {
					atomic.AddInt64(&falses, 1)
				}
			}
		}()
	}
	wg.Wait()
	res.Desc = fmt.Sprintf("never-empty cap=%d queued=%d consumers=%d (each %d single pops) + %d concurrent pushes", capa, M, K, per, extra)
	if f := atomic.LoadInt64(&falses); f > 0 {
		res.violate("%d pop calls reported false although the queue cannot have been empty: %d elements were queued before the first of the %d calls began and each call takes at most one (%s)", f, M, per*K, res.Desc)
	}
	if w := atomic.LoadInt64(&wrong); w > 0 {
		res.violate("%d PopN(1) calls returned a batch that is not one element long", w)
	}
	if want := int64(M + extra - per*K); rb.Len() != want && res.Verdict != vViolated {
		res.violate("Len() = %d after %d pushes and %d successful single pops, expected %d", rb.Len(), M+extra, per*K, want)
	}
	res.count("never_empty_pops", int64(per*K))
	res.Sig = sigHash("never-empty", capa, M, K)
	return res
}
