package main

// The scripted single-actor scenario: a sequential reference model of one
// actor's life, a driver that runs the same script against the real engine
// with batch boundaries pinned by gate messages, and the oracle that compares
// what the receiver, the middleware, the event stream and the stop contexts
// showed with what the model says. Used by C04, C05, C06, C07 and C13 with
// different script generators.

import (
	"context"
	"fmt"
	"strings"
	"sync"
	"sync/atomic"
	"time"

	"github.com/anthdm/hollywood/actor"
)

type itemKind int

const (
	itMsg itemKind = iota
	itCrash
	itGate
	itPoison
	itStop
	itCrashI // panics with *actor.InternalError: restarted without touching the budget, no ActorRestartedEvent
)

func (k itemKind) String() string {
	return [...]string{"msg", "crash", "gate", "POISON", "STOP", "icrash"}[k]
}

type item struct {
	Kind itemKind
	ID   int
}

func (it item) String() string { return fmt.Sprintf("%s%d", it.Kind, it.ID) }

// batchMax is the largest batch the inbox worker hands to Invoke. It is an
// internal constant of the code under test (4096 at the time of writing); the
// model needs it to know how far a poison pill's drain reaches, so it is
// measured on the real Inbox once per process instead of being assumed.
var (
	batchMax     = 4096
	batchMaxOnce sync.Once
)

type firstBatchProc struct {
	first chan int
	once  sync.Once
}

func (p *firstBatchProc) Start()                           {}
func (p *firstBatchProc) PID() *actor.PID                  { return nil }
func (p *firstBatchProc) Send(*actor.PID, any, *actor.PID) {}
func (p *firstBatchProc) Shutdown()                        {}
func (p *firstBatchProc) Invoke(msgs []actor.Envelope) {
	p.once.Do(func() { p.first <- len(msgs) })
}

func measureBatchMax() {
	batchMaxOnce.Do(func() {
		in := actor.NewInbox(8)
		for i := 0; i < 20000; i++ {
			in.Send(actor.Envelope{Msg: i})
		}
		p := &firstBatchProc{first: make(chan int, 1)}
		in.Start(p)
		select {
		case n := <-p.first:
			if n >= 16 && n < 20000 {
				batchMax = n
			}
		case <-time.After(10 * time.Second):
		}
		in.Stop()
	})
}

type scriptSpec struct {
	InboxSize    int
	MaxRestarts  int
	RestartDelay time.Duration
	MW           int          // middleware chain length
	CrashInit    map[int]bool // incarnations whose Initialized handler panics
	CrashStart   map[int]bool // incarnations whose Started handler panics
	Early        []item       // sent by a concurrent goroutine while incarnation 1 is still inside Started (msg/crash only)
	Segments     [][]item     // segment 0 is one gate; segment k>0 is sent while gate k-1 is held; all but the last end with a gate
	Children     int          // children spawned by incarnation 1 in Started
	WithSender   bool
	CtxCancel    int           // 0: default spawn context; 1: WithContext(ctx) cancelled before Spawn; 2: cancelled right after Spawn
	ViaPeer      bool          // every third message (and the probe after the end) is sent by a peer actor with Context.Send and the one *PID value, as actors talk to each other
	QuietGap     time.Duration // workload shaping only: after each segment's gate has been entered the driver lets this much failure-free time pass before it goes on (0 = none)
	LateFor      int           // id of a crash item: as soon as it has been received a concurrent goroutine sends Late (0 = none)
	Late         []item        // msg items only; they must be delivered after everything buffered behind the crash, before the next segment
}

func (s *scriptSpec) String() string {
	var sb strings.Builder
	fmt.Fprintf(&sb, "inbox=%d maxRestarts=%d delay=%v mw=%d children=%d ctxCancel=%d", s.InboxSize, s.MaxRestarts, s.RestartDelay, s.MW, s.Children, s.CtxCancel)
	if len(s.CrashInit) > 0 {
		fmt.Fprintf(&sb, " crashInit=%v", keys(s.CrashInit))
	}
	if len(s.CrashStart) > 0 {
		fmt.Fprintf(&sb, " crashStart=%v", keys(s.CrashStart))
	}
	if len(s.Early) > 0 {
		fmt.Fprintf(&sb, " early=%v", s.Early)
	}
	if s.ViaPeer {
		sb.WriteString(" viaPeer")
	}
	if s.QuietGap != 0 {
		fmt.Fprintf(&sb, " quietGap=%v", s.QuietGap)
	}
	if s.LateFor != 0 {
		fmt.Fprintf(&sb, " late(after crash%d)=%v", s.LateFor, s.Late)
	}
	for i, seg := range s.Segments {
		if len(seg) > 24 {
			fmt.Fprintf(&sb, " | seg%d[%d items: %v ... %v]", i, len(seg), seg[:6], seg[len(seg)-6:])
		} else {
			fmt.Fprintf(&sb, " | seg%d%v", i, seg)
		}
	}
	return sb.String()
}

func keys(m map[int]bool) []int {
	var out []int
	for k := 0; k < 64; k++ {
		if m[k] {
			out = append(out, k)
		}
	}
	return out
}

// ---- model ------------------------------------------------------------------

type expEv struct {
	Inc  int
	Kind string // Initialized Started Stopped msg crash gate
	ID   int
}

func (e expEv) String() string {
	switch e.Kind {
	case "msg", "crash", "gate", "icrash":
		return fmt.Sprintf("%d:%s%d", e.Inc, e.Kind, e.ID)
	}
	return fmt.Sprintf("%d:%s", e.Inc, e.Kind)
}

type simResult struct {
	log              []expEv
	events           []string // projected engine events for the actor: started restarted(k) maxexceeded stopped
	spawnLogLen      int      // length of log when Spawn returns
	gateEntered      map[int]bool
	stopped          bool
	segmentsSent     int // how many segments the driver gets to send
	restarts         int
	crashes          int
	crashKinds       map[string]int
	drainCrash       bool
	replayCrash      bool
	pillInReplay     bool
	lateSent         bool
	internalRestarts int
}

type sim struct {
	spec     *scriptSpec
	inc      int
	restarts int
	mbuffer  []item
	stopped  bool
	inReplay int
	r        simResult
}

func (s *sim) logf(kind string, id int) {
	s.r.log = append(s.r.log, expEv{Inc: s.inc, Kind: kind, ID: id})
}

func (s *sim) start() {
	s.inc++
	s.logf("Initialized", 0)
	if s.spec.CrashInit[s.inc] {
		s.r.crashKinds["Initialized"]++
		s.tryRestart()
		return
	}
	s.logf("Started", 0)
	if s.spec.CrashStart[s.inc] {
		s.r.crashKinds["Started"]++
		s.tryRestart()
		return
	}
	s.r.events = append(s.r.events, "started")
	if len(s.mbuffer) > 0 {
		buf := s.mbuffer
		s.inReplay++
		s.invoke(buf)
		s.inReplay--
		s.mbuffer = nil
	}
}

func (s *sim) tryRestart() {
	s.r.crashes++
	if s.restarts == s.spec.MaxRestarts {
		s.r.events = append(s.r.events, "maxexceeded")
		s.cleanup()
		return
	}
	s.logf("Stopped", 0)
	s.restarts++
	s.r.events = append(s.r.events, fmt.Sprintf("restarted(%d)", s.restarts))
	s.start()
}

// internalRestart mirrors the InternalError path: the failed incarnation is
// stopped and replaced without consuming the budget and without an event.
func (s *sim) internalRestart() {
	s.r.crashes++
	s.r.internalRestarts++
	s.logf("Stopped", 0)
	s.start()
}

func (s *sim) cleanup() {
	s.stopped = true
	s.logf("Stopped", 0)
	s.r.events = append(s.r.events, "stopped")
}

func (s *sim) deliver(it item) {
	switch it.Kind {
	case itMsg:
		s.logf("msg", it.ID)
	case itGate:
		s.logf("gate", it.ID)
		s.r.gateEntered[it.ID] = true
	case itCrash:
		s.logf("crash", it.ID)
	case itCrashI:
		s.logf("icrash", it.ID)
	}
}

func (s *sim) invoke(batch []item) {
	for i, it := range batch {
		switch it.Kind {
		case itMsg, itGate:
			s.deliver(it)
		case itCrash:
			s.deliver(it)
			s.r.crashKinds["user"]++
			if s.inReplay > 0 {
				s.r.replayCrash = true
			}
			s.mbuffer = append([]item(nil), batch[i+1:]...)
			s.tryRestart()
			return
		case itCrashI:
			s.deliver(it)
			s.r.crashKinds["internal"]++
			s.mbuffer = append([]item(nil), batch[i+1:]...)
			s.internalRestart()
			return
		case itPoison:
			if s.inReplay > 0 {
				s.r.pillInReplay = true
			}
			rest := batch[i+1:]
			for j, d := range rest {
				switch d.Kind {
				case itPoison, itStop:
					// pills behind the pill are suppressed
				case itCrash:
					s.deliver(d)
					s.r.crashKinds["user"]++
					s.r.drainCrash = true
					s.mbuffer = append(append([]item(nil), rest[j+1:]...), it)
					s.tryRestart()
					return
				case itCrashI:
					s.deliver(d)
					s.r.crashKinds["internal"]++
					s.r.drainCrash = true
					s.mbuffer = append(append([]item(nil), rest[j+1:]...), it)
					s.internalRestart()
					return
				default:
					s.deliver(d)
				}
			}
			s.cleanup()
			return
		case itStop:
			if s.inReplay > 0 {
				s.r.pillInReplay = true
			}
			s.cleanup()
			return
		}
	}
}

func simulate(spec *scriptSpec) simResult {
	measureBatchMax()
	s := &sim{spec: spec}
	s.r.gateEntered = map[int]bool{}
	s.r.crashKinds = map[string]int{}
	s.start()
	s.r.spawnLogLen = len(s.r.log)
	if !s.stopped && len(spec.Early) > 0 {
		s.invoke(spec.Early)
	}
	// What the worker finds in the ring when a gate is released is the late
	// messages sent behind the previous segment (if any) followed by the next
	// segment; it takes them in batches of at most 4096.
	var pending []item
	runStream := func(stream []item) {
		for a := 0; a < len(stream) && !s.stopped; a += batchMax {
			b := a + batchMax
			if b > len(stream) {
				b = len(stream)
			}
			s.invoke(stream[a:b])
		}
	}
	for _, seg := range spec.Segments {
		if s.stopped {
			break
		}
		s.r.segmentsSent++
		stream := append(append([]item(nil), pending...), seg...)
		pending = nil
		runStream(stream)
		if spec.LateFor != 0 && !s.stopped {
			for _, it := range seg {
				if it.Kind == itCrash && it.ID == spec.LateFor {
					s.r.lateSent = true
					pending = spec.Late
				}
			}
		}
	}
	if !s.stopped && len(pending) > 0 {
		runStream(pending)
	}
	s.r.stopped = s.stopped
	s.r.restarts = s.restarts
	return s.r
}

// ---- recorder ---------------------------------------------------------------

type recEv struct {
	Seq    int64
	Inc    int
	Kind   string
	ID     int
	Sender string
	Layer  int // for middleware events
}

func (e recEv) String() string {
	switch e.Kind {
	case "msg", "crash", "gate", "icrash":
		return fmt.Sprintf("%d:%s%d", e.Inc, e.Kind, e.ID)
	case "enter", "exit":
		return fmt.Sprintf("mw%d-%s", e.Layer, e.Kind)
	}
	return fmt.Sprintf("%d:%s", e.Inc, e.Kind)
}

type recorder struct {
	inflight int32
	mu       sync.Mutex
	evs      []recEv // receiver events
	all      []recEv // receiver + middleware events interleaved
	seq      int64
}

func (r *recorder) add(e recEv, recv bool) {
	r.mu.Lock()
	r.seq++
	e.Seq = r.seq
	if recv {
		r.evs = append(r.evs, e)
	}
	r.all = append(r.all, e)
	r.mu.Unlock()
}

func (r *recorder) snapshot() []recEv {
	r.mu.Lock()
	defer r.mu.Unlock()
	return append([]recEv(nil), r.evs...)
}

func (r *recorder) snapshotAll() []recEv {
	r.mu.Lock()
	defer r.mu.Unlock()
	return append([]recEv(nil), r.all...)
}

func (r *recorder) has(kind string, id int) bool {
	r.mu.Lock()
	defer r.mu.Unlock()
	for _, e := range r.evs {
		if e.Kind == kind && e.ID == id {
			return true
		}
	}
	return false
}

type uMsg struct {
	Kind itemKind
	ID   int
	gate *gate
}

type gate struct {
	entered chan struct{}
	release chan struct{}
	once    sync.Once
}

func newGate() *gate { return &gate{entered: make(chan struct{}), release: make(chan struct{})} }

var globalSeq int64 // orders Stopped deliveries across actors (children before parents)

// scriptedActor is one incarnation.
type scriptedActor struct {
	inc       int
	rec       *recorder
	spec      *scriptSpec
	startGate *gate // held inside Started of incarnation 1 when early sends are scripted
	children  *childLog
	sawPill   *int32
}

func (l *childLog) tracef(id, ev string) {
	l.mu.Lock()
	if l.trace == nil {
		l.trace = map[string][]string{}
	}
	l.trace[id] = append(l.trace[id], ev)
	l.mu.Unlock()
}

// checkChildNesting: every delivery to a child is enter0 enter1 recv exit1 exit0.
func (l *childLog) checkNesting() string {
	l.mu.Lock()
	defer l.mu.Unlock()
	for id, tr := range l.trace {
		hasMW := false
		for _, ev := range tr {
			if strings.HasPrefix(ev, "enter") {
				hasMW = true
			}
		}
		if !hasMW {
			return fmt.Sprintf("child %s: %d deliveries, none of them passed through its middleware chain", id, len(tr))
		}
		for i := 0; i < len(tr); i += 5 {
			if i+5 > len(tr) {
				return fmt.Sprintf("child %s: incomplete block at the end of its trace %v", id, tr[i:])
			}
			b := tr[i : i+5]
			k := strings.TrimPrefix(b[0], "enter0:")
			if !strings.HasPrefix(b[0], "enter0:") || b[1] != "enter1:"+k || b[2] != "recv:"+k || b[3] != "exit1" || b[4] != "exit0" {
				return fmt.Sprintf("child %s: delivery not wrapped as enter0 enter1 recv exit1 exit0: %v", id, b)
			}
		}
	}
	return ""
}

type childLog struct {
	trace   map[string][]string
	mu      sync.Mutex
	stopped map[string][]int64 // child id -> global seq of each Stopped
	started map[string]int
	parent  map[string]string
}

func pidStr(p *actor.PID) string {
	if p == nil {
		return ""
	}
	return p.Address + "/" + p.ID
}

func (a *scriptedActor) Receive(c *actor.Context) {
	// one delivery at a time: a second worker on the same actor shows up here
	if atomic.AddInt32(&a.rec.inflight, 1) != 1 {
		a.rec.add(recEv{Inc: a.inc, Kind: "OVERLAPPING-DELIVERY"}, true)
	}
	defer atomic.AddInt32(&a.rec.inflight, -1)
	sender := pidStr(c.Sender())
	switch m := c.Message().(type) {
	case actor.Initialized:
		a.rec.add(recEv{Inc: a.inc, Kind: "Initialized"}, true)
		if a.spec.CrashInit[a.inc] {
			panic(fmt.Sprintf("scripted crash in Initialized of incarnation %d", a.inc))
		}
	case actor.Started:
		a.rec.add(recEv{Inc: a.inc, Kind: "Started"}, true)
		if a.spec.Children > 0 { // every incarnation does what its Started handler does: after a restart these are duplicate spawns
			for i := 0; i < a.spec.Children; i++ {
				cl := a.children
				kopts := []actor.OptFunc{actor.WithID(fmt.Sprint(i))}
				if a.spec.MW > 0 {
					// the children carry a two-layer chain of their own: their Stopped on the parent-shutdown path must pass through it
					for l := 0; l < 2; l++ {
						l := l
						kopts = append(kopts, actor.WithMiddleware(func(next actor.ReceiveFunc) actor.ReceiveFunc {
							return func(ctx *actor.Context) {
								k, _ := describeMsg(ctx.Message())
								cl.tracef(ctx.PID().ID, fmt.Sprintf("enter%d:%s", l, k))
								defer cl.tracef(ctx.PID().ID, fmt.Sprintf("exit%d", l))
								next(ctx)
							}
						}))
					}
				}
				c.SpawnChild(func() actor.Receiver { return &childActor{log: cl} }, "kid", kopts...)
			}
		}
		if a.startGate != nil {
			first := false
			a.startGate.once.Do(func() { first = true; close(a.startGate.entered) })
			if first {
				<-a.startGate.release
			}
		}
		if a.spec.CrashStart[a.inc] {
			panic(fmt.Sprintf("scripted crash in Started of incarnation %d", a.inc))
		}
	case actor.Stopped:
		seq := atomic.AddInt64(&globalSeq, 1)
		a.rec.add(recEv{Inc: a.inc, Kind: "Stopped", ID: int(seq)}, true)
	case *uMsg:
		a.rec.add(recEv{Inc: a.inc, Kind: m.Kind.String(), ID: m.ID, Sender: sender}, true)
		if m.Kind == itMsg {
			userPerturb() // a Receive takes time (only in the chaos modes)
			if c.Sender() != nil && m.ID%3 == 0 {
				c.Respond(&uMsg{Kind: itMsg, ID: -100 - m.ID}) // answering must not disturb what the rest of the chain sees
			}
		}
		switch m.Kind {
		case itGate:
			m.gate.once.Do(func() { close(m.gate.entered) })
			<-m.gate.release
		case itCrash:
			panic(fmt.Sprintf("scripted crash on message %d", m.ID))
		case itCrashI:
			panic(&actor.InternalError{From: "verif-scripted", Err: fmt.Errorf("scripted internal error on message %d", m.ID)})
		}
	default:
		// anything else reaching Receive is a leak (e.g. a poison pill)
		atomic.AddInt32(a.sawPill, 1)
		a.rec.add(recEv{Inc: a.inc, Kind: fmt.Sprintf("LEAK(%T)", m)}, true)
	}
}

type childActor struct {
	log *childLog
}

func (ch *childActor) Receive(c *actor.Context) {
	id := c.PID().ID
	k, _ := describeMsg(c.Message())
	ch.log.tracef(id, "recv:"+k)
	switch c.Message().(type) {
	case actor.Started:
		ch.log.mu.Lock()
		ch.log.started[id]++
		ch.log.parent[id] = pidStr(c.Parent())
		ch.log.mu.Unlock()
	case actor.Stopped:
		seq := atomic.AddInt64(&globalSeq, 1)
		ch.log.mu.Lock()
		ch.log.stopped[id] = append(ch.log.stopped[id], seq)
		ch.log.mu.Unlock()
	}
}

// eventMonitor subscribes to the event stream and logs everything.
type eventMonitor struct {
	mu   sync.Mutex
	evs  []any
	cond chan struct{}
	// hold, if set, keeps the monitor inside Receive on its first DeadLetterEvent until it is closed:
	// whatever the event stream forwards meanwhile piles up in the monitor's inbox
	hold     chan struct{}
	holdOnce sync.Once
}

type markerEvent struct{ N int64 }

func (m *eventMonitor) Receive(c *actor.Context) {
	switch c.Message().(type) {
	case actor.Initialized, actor.Started, actor.Stopped:
		return
	}
	m.mu.Lock()
	m.evs = append(m.evs, c.Message())
	m.mu.Unlock()
	if m.hold != nil {
		if _, ok := c.Message().(actor.DeadLetterEvent); ok {
			m.holdOnce.Do(func() { <-m.hold })
		}
	}
}

func (m *eventMonitor) snapshot() []any {
	m.mu.Lock()
	defer m.mu.Unlock()
	return append([]any(nil), m.evs...)
}

func (m *eventMonitor) count(pred func(any) bool) int {
	m.mu.Lock()
	defer m.mu.Unlock()
	n := 0
	for _, e := range m.evs {
		if pred(e) {
			n++
		}
	}
	return n
}

var markerCounter int64

// flush round-trips a marker through the event stream: every event broadcast
// before (in happens-before order) has reached the monitor when it returns true.
func (m *eventMonitor) flush(e *actor.Engine, wd time.Duration) bool {
	n := atomic.AddInt64(&markerCounter, 1)
	e.BroadcastEvent(markerEvent{N: n})
	return waitFor(wd, func() bool {
		return m.count(func(x any) bool { mk, ok := x.(markerEvent); return ok && mk.N == n }) > 0
	})
}

func newMonitoredEngine() (*actor.Engine, *eventMonitor, *actor.PID, error) {
	e, err := actor.NewEngine(actor.NewEngineConfig())
	if err != nil {
		return nil, nil, nil, err
	}
	mon := &eventMonitor{}
	mpid := e.Spawn(func() actor.Receiver { return mon }, "verifmonitor", actor.WithID("0"))
	e.Subscribe(mpid)
	// the subscription is a message to the event stream: flush it
	if !mon.flush(e, 20*time.Second) {
		return nil, nil, nil, fmt.Errorf("event monitor subscription was not confirmed")
	}
	return e, mon, mpid, nil
}

// projectEvents reduces the monitor's log to the events about pid.
func projectEvents(evs []any, pid *actor.PID) []string {
	var out []string
	for _, ev := range evs {
		switch x := ev.(type) {
		case actor.ActorStartedEvent:
			if x.PID.Equals(pid) {
				out = append(out, "started")
			}
		case actor.ActorRestartedEvent:
			if x.PID.Equals(pid) {
				out = append(out, fmt.Sprintf("restarted(%d)", x.Restarts))
			}
		case actor.ActorMaxRestartsExceededEvent:
			if x.PID.Equals(pid) {
				out = append(out, "maxexceeded")
			}
		case actor.ActorStoppedEvent:
			if x.PID.Equals(pid) {
				out = append(out, "stopped")
			}
		}
	}
	return out
}

// ---- driver + oracle -----------------------------------------------------

type scriptOutcome struct {
	res      caseResult
	sim      simResult
	observed []recEv
	all      []recEv
	events   []string
}

// pillCtx remembers a Poison/Stop call.
type pillCtx struct {
	it       item
	ctx      context.Context
	sentMsgs []int // ids of user messages whose send returned before the call
}

// runScript executes spec against a fresh engine and checks it against the model.
// focus selects additional, property specific assertions in the messages.
func runScript(c *caseCtx, spec *scriptSpec) (out scriptOutcome) {
	res := &out.res
	res.Verdict = vHeld
	wd := watchdog(c.tier)
	model := simulate(spec)
	out.sim = model
	e, mon, _, err := newMonitoredEngine()
	if err != nil {
		res.inconclusive("engine setup: %v", err)
		return
	}
	rec := &recorder{}
	var incCounter int32
	var sawPill int32
	var startGate *gate
	if len(spec.Early) > 0 {
		startGate = newGate()
	}
	kids := &childLog{stopped: map[string][]int64{}, started: map[string]int{}, parent: map[string]string{}}
	producer := func() actor.Receiver {
		n := int(atomic.AddInt32(&incCounter, 1))
		return &scriptedActor{inc: n, rec: rec, spec: spec, startGate: startGate, children: kids, sawPill: &sawPill}
	}
	opts := []actor.OptFunc{actor.WithID("a"), actor.WithInboxSize(spec.InboxSize), actor.WithMaxRestarts(spec.MaxRestarts), actor.WithRestartDelay(spec.RestartDelay)}
	mkMW := func(layer int) actor.MiddlewareFunc {
		return func(next actor.ReceiveFunc) actor.ReceiveFunc {
			return func(ctx *actor.Context) {
				if ctx.PID().ID != "scripted/a" {
					next(ctx) // the decoy actor shares these functions; only the scripted actor is recorded
					return
				}
				k, id := describeMsg(ctx.Message())
				rec.add(recEv{Kind: "enter", Layer: layer, ID: id, Sender: k + "|" + pidStr(ctx.Sender())}, false)
				defer func() {
					k2, id2 := describeMsg(ctx.Message())
					rec.add(recEv{Kind: "exit", Layer: layer, ID: id2, Sender: k2 + "|" + pidStr(ctx.Sender())}, false)
				}()
				next(ctx)
			}
		}
	}
	// The chain is handed over the way callers do it: a shared slice with spare capacity for the common
	// layers plus a separate option for the last one. The slice stays the caller's: it is reused for a
	// second spawn and overwritten afterwards, neither of which may change the chain given at this spawn.
	var sharedMW []actor.MiddlewareFunc
	if spec.MW > 0 {
		sharedMW = make([]actor.MiddlewareFunc, spec.MW-1, spec.MW+3)
		for i := range sharedMW {
			sharedMW[i] = mkMW(i)
		}
		opts = append(opts, actor.WithMiddleware(sharedMW...), actor.WithMiddleware(mkMW(spec.MW-1)))
	}
	var cancelSpawnCtx context.CancelFunc
	if spec.CtxCancel > 0 {
		sctx, cancel := context.WithCancel(context.Background())
		cancelSpawnCtx = cancel
		opts = append(opts, actor.WithContext(sctx))
		if spec.CtxCancel == 1 {
			cancel()
		}
	}
	senderPID := actor.NewPID("local", "verif/sender")
	// the peer: an actor that passes messages on with its own Context.Send. The driver waits until that Send
	// has returned, so the order of the script's sends is the order of the driver's calls either way.
	type relayReq struct {
		pid  *actor.PID
		m    *uMsg
		done chan struct{}
	}
	var relayPID *actor.PID
	if spec.ViaPeer {
		relayPID = e.SpawnFunc(func(c *actor.Context) {
			if rq, ok := c.Message().(relayReq); ok {
				c.Send(rq.pid, rq.m)
				close(rq.done)
			}
		}, "verif-peer", actor.WithID("p"))
	}
	viaPeer := func(id int) bool { return spec.ViaPeer && (id%3 == 0 || id == -7) }
	relay := func(pid *actor.PID, m *uMsg) {
		rq := relayReq{pid: pid, m: m, done: make(chan struct{})}
		e.Send(relayPID, rq)
		<-rq.done
	}
	send := func(pid *actor.PID, m *uMsg) {
		if viaPeer(m.ID) {
			relay(pid, m)
		} else if spec.WithSender && m.ID%2 == 0 {
			e.SendWithSender(pid, m, senderPID)
		} else {
			e.Send(pid, m)
		}
	}
	expSender := func(id int) string {
		if viaPeer(id) {
			return pidStr(relayPID)
		}
		if spec.WithSender && id%2 == 0 {
			return pidStr(senderPID)
		}
		return ""
	}
	fail := func(format string, a ...any) { res.violate(format, a...) }
	// a wait that ran into the watchdog is decided on state where possible: if the process has come to
	// rest, what the model expects can no longer happen
	undecided := func(format string, a ...any) {
		msg := fmt.Sprintf(format, a...)
		if rest, where := atRest(3 * time.Second); rest {
			fail("%s - and it never will: the process has come to rest (every goroutine parked on a channel or lock, none running, runnable or sleeping: %s)", msg, where)
		} else {
			res.inconclusive("%s (%s)", msg, where)
		}
	}

	// -- spawn (with the early senders racing it)
	var earlyDone chan struct{}
	if startGate != nil {
		earlyDone = make(chan struct{})
		go func() {
			defer close(earlyDone)
			// from the moment the registry knows the PID ...
			var pid *actor.PID
			if !waitFor(wd, func() bool { pid = e.Registry.GetPID("scripted", "a"); return pid != nil }) {
				return
			}
			<-startGate.entered
			for _, it := range spec.Early {
				send(pid, &uMsg{Kind: it.Kind, ID: it.ID})
			}
			close(startGate.release)
		}()
	}
	pid := e.Spawn(producer, "scripted", opts...)
	if spec.CtxCancel == 2 {
		cancelSpawnCtx()
	}
	if spec.MW > 0 {
		// a second actor built from the same slice, then the slice is overwritten
		decoy := e.SpawnFunc(func(*actor.Context) {}, "decoy", actor.WithID("d"), actor.WithMiddleware(sharedMW...), actor.WithMiddleware(mkMW(99)))
		for i := range sharedMW {
			sharedMW[i] = mkMW(90 + i)
		}
		sp := sharedMW[:cap(sharedMW)]
		for i := len(sharedMW); i < len(sp); i++ {
			sp[i] = mkMW(80 + i)
		}
		defer e.Poison(decoy)
	}
	// C04: when Spawn returns the spawn-phase log is complete
	atSpawn := rec.snapshot()
	if len(atSpawn) < model.spawnLogLen {
		fail("when Spawn returned only %d lifecycle deliveries had been made, the model expects %d (%v)", len(atSpawn), model.spawnLogLen, model.log[:model.spawnLogLen])
	}
	if earlyDone != nil {
		select {
		case <-earlyDone:
		case <-time.After(wd):
			res.inconclusive("early senders did not finish")
			return
		}
	}

	// -- segments
	var gates = map[int]*gate{}
	var pills []pillCtx
	var sentMsgs []int
	var heldGate *gate
	var scriptOver int32
	aborted := false
	for k := 0; k < model.segmentsSent && !aborted; k++ {
		seg := spec.Segments[k]
		var lateDone chan struct{}
		if spec.LateFor != 0 {
			for _, it := range seg {
				if it.Kind == itCrash && it.ID == spec.LateFor {
					lateDone = make(chan struct{})
					go func() {
						defer close(lateDone)
						if waitFor(wd, func() bool { return rec.has("crash", spec.LateFor) || atomic.LoadInt32(&scriptOver) == 1 }) && rec.has("crash", spec.LateFor) {
							for _, l := range spec.Late {
								send(pid, &uMsg{Kind: l.Kind, ID: l.ID})
							}
						}
					}()
				}
			}
		}
		for _, it := range seg {
			switch it.Kind {
			case itPoison:
				ctx := e.Poison(pid)
				pills = append(pills, pillCtx{it: it, ctx: ctx, sentMsgs: append([]int(nil), sentMsgs...)})
			case itStop:
				ctx := e.Stop(pid)
				pills = append(pills, pillCtx{it: it, ctx: ctx})
			case itGate:
				g := newGate()
				gates[it.ID] = g
				send(pid, &uMsg{Kind: itGate, ID: it.ID, gate: g})
			default:
				send(pid, &uMsg{Kind: it.Kind, ID: it.ID})
				if it.Kind == itMsg {
					sentMsgs = append(sentMsgs, it.ID)
				}
			}
		}
		if heldGate != nil {
			close(heldGate.release)
			heldGate = nil
		}
		// wait for this segment's gate, if the model says it is reached
		last := seg[len(seg)-1]
		if last.Kind == itGate && model.gateEntered[last.ID] {
			g := gates[last.ID]
			select {
			case <-g.entered:
				heldGate = g
				if spec.QuietGap > 0 {
					time.Sleep(spec.QuietGap) // a quiet stretch between failures: the restart count is a lifetime count
				}
			case <-time.After(wd / 2):
				aborted = true
				out.observed = rec.snapshot()
				if d := diffLogs(model.log, out.observed, true); d != "" {
					fail("stuck before gate %d and the deliveries so far deviate from the model: %s", last.ID, d)
				} else {
					// decide on state: a probe sent now queues up behind everything sent so far; if it is
					// delivered although the gate (sent before it) is not, messages have been lost
					probe := &uMsg{Kind: itMsg, ID: -9}
					e.Send(pid, probe)
					if waitFor(wd/3, func() bool { return rec.has("msg", -9) }) {
						fail("messages were lost: a probe sent afterwards was delivered, but gate %d and what was queued before it never were (deliveries so far %d of %d expected: %s)", last.ID, len(out.observed), len(model.log), tailStr(out.observed, 6))
					} else {
						undecided("gate %d was not reached within the watchdog; deliveries so far agree with the model (%d of %d)", last.ID, len(out.observed), len(model.log))
					}
				}
			}
		}
		if lateDone != nil && model.lateSent && !aborted {
			// the late sender was triggered by the crash; its sends precede the next segment
			<-lateDone
		}
	}
	atomic.StoreInt32(&scriptOver, 1)
	if heldGate != nil {
		close(heldGate.release)
	}
	// release every gate that was created but (per model) never entered, so that a deviating run cannot block forever
	for _, g := range gates {
		select {
		case <-g.release:
		default:
			close(g.release)
		}
	}
	if aborted {
		out.all = rec.snapshotAll()
		finishScript(c, spec, &out)
		return
	}

	// -- final phase
	if model.stopped {
		// every pill context must become done; done implies Stopped handled and unregistered
		for i := range pills {
			p := pills[i]
			select {
			case <-p.ctx.Done():
				snap := rec.snapshot()
				if !hasFinalStopped(snap) {
					fail("context of %v became done before the receiver had handled Stopped (log at that moment: %v)", p.it, tailStr(snap, 6))
				}
				if got := e.Registry.GetPID("scripted", "a"); got != nil {
					fail("context of %v became done while the actor was still registered", p.it)
				}
				if p.it.Kind == itPoison {
					for _, id := range p.sentMsgs {
						// (messages the model itself loses - the actor exceeded its restart budget, or an
						// earlier Stop won - are not demanded)
						if modelHas(model.log, "msg", id) && !logHas(snap, "msg", id) {
							fail("context of %v became done although message %d, sent before the Poison call, has not been handled", p.it, id)
						}
					}
				}
			case <-time.After(wd):
				// decide on state: can anything still close it?
				stoppedSeen := mon.count(func(x any) bool {
					ev, ok := x.(actor.ActorStoppedEvent)
					return ok && ev.PID.Equals(pid)
				}) > 0
				if stoppedSeen && e.Registry.GetPID("scripted", "a") == nil {
					fail("context of %v never became done although the actor has stopped and is unregistered: nothing can signal it any more", p.it)
				} else if lostRequestProof(e, pid, rec, wd) {
					aborted = true
					fail("context of %v never became done: the request was lost. Two messages sent after it, the second only after the first had been handled, were both handled by the actor, so the batch that held the request has been processed to its end (restart and replay included) and the actor is still running with nothing left that could stop it", p.it)
				} else {
					aborted = true
					undecided("context of %v not done within the watchdog and the actor has not been seen stopping", p.it)
				}
			}
		}
		if !waitFor(wd, func() bool {
			return mon.count(func(x any) bool {
				ev, ok := x.(actor.ActorStoppedEvent)
				return ok && ev.PID.Equals(pid)
			}) > 0
		}) {
			out.observed = rec.snapshot()
			if d := diffLogs(model.log, out.observed, true); d != "" {
				fail("the model says the actor ends, ActorStoppedEvent never came, and the deliveries deviate: %s", d)
			} else if !aborted {
				undecided("ActorStoppedEvent not observed within the watchdog")
			}
			out.all = rec.snapshotAll()
			finishScript(c, spec, &out)
			return
		}
		if got := e.Registry.GetPID("scripted", "a"); got != nil {
			fail("the actor ended (ActorStoppedEvent seen) but is still registered")
		}
		// a later send dead-letters, exactly once, and is not delivered
		probe := &uMsg{Kind: itMsg, ID: -7}
		before := len(rec.snapshot())
		if spec.ViaPeer {
			relay(pid, probe) // the peer has sent to this very *PID while the actor was alive
		} else {
			e.SendWithSender(pid, probe, senderPID)
		}
		mon.flush(e, wd)
		// give a zombie worker (if any) a chance to show itself; this adds detection power only
		time.Sleep(2 * time.Millisecond)
		mon.flush(e, wd)
		dl := mon.count(func(x any) bool {
			ev, ok := x.(actor.DeadLetterEvent)
			return ok && ev.Message == any(probe)
		})
		if dl != 1 {
			fail("a message sent after the actor ended produced %d DeadLetterEvents, expected exactly 1", dl)
		} else {
			for _, x := range mon.snapshot() {
				if ev, ok := x.(actor.DeadLetterEvent); ok && ev.Message == any(probe) {
					if !ev.Target.Equals(pid) || pidStr(ev.Sender) != expSender(-7) && !(expSender(-7) == "" && pidStr(ev.Sender) == pidStr(senderPID)) {
						fail("DeadLetterEvent for the probe carries target %v sender %v", ev.Target, ev.Sender)
					}
				}
			}
		}
		if after := rec.snapshot(); len(after) != before {
			fail("deliveries after the final Stopped: %v", tailStr(after[before:], 8))
		}
		// children (C06/C08): each stopped exactly once, before the parent's final Stopped, and unregistered
		if spec.Children > 0 {
			final := finalStoppedSeq(rec.snapshot())
			kids.mu.Lock()
			for i := 0; i < spec.Children; i++ {
				id := fmt.Sprintf("scripted/a/kid/%d", i)
				if kids.started[id] == 0 {
					continue // the parent never got as far as spawning it
				}
				st := kids.stopped[id]
				if len(st) != 1 {
					fail("child %s received Stopped %d times", id, len(st))
				} else if final > 0 && st[0] > final {
					fail("child %s handled Stopped after its parent did", id)
				}
				if e.Registry.GetPID("scripted/a/kid", fmt.Sprint(i)) != nil {
					fail("child %s is still registered after its parent ended", id)
				}
			}
			kids.mu.Unlock()
		}
	} else {
		// alive: a probe sent now is delivered
		probe := &uMsg{Kind: itMsg, ID: -7}
		if spec.ViaPeer {
			relay(pid, probe)
		} else {
			e.Send(pid, probe)
		}
		if !waitFor(wd, func() bool { return rec.has("msg", -7) }) {
			out.observed = rec.snapshot()
			if d := diffLogs(model.log, out.observed, true); d != "" {
				fail("probe not delivered and the deliveries deviate from the model: %s", d)
			} else if e.Registry.GetPID("scripted", "a") == nil {
				fail("the model says the actor is alive, but it is no longer registered (deliveries so far: %v)", tailStr(out.observed, 8))
			} else {
				undecided("probe not delivered within the watchdog; deliveries so far agree with the model")
			}
			out.all = rec.snapshotAll()
			finishScript(c, spec, &out)
			return
		}
		if spec.MW > 0 {
			// the probe's delivery is complete when the outermost layer has returned
			waitFor(wd, func() bool {
				all := rec.snapshotAll()
				return len(all) > 0 && all[len(all)-1].Kind == "exit" && all[len(all)-1].Layer == 0
			})
		}
		model.log = append(model.log, expEv{Inc: lastInc(model.log), Kind: "msg", ID: -7})
		if got := e.Registry.GetPID("scripted", "a"); got == nil || !got.Equals(pid) {
			fail("live actor not found in the registry")
		}
		for i := range pills {
			_ = i // (cannot happen: a pill ends the actor in the model)
		}
		mon.flush(e, wd)
	}
	if atomic.LoadInt32(&sawPill) > 0 {
		fail("a message that is not part of the script reached Receive (a poison pill leaked?)")
	}

	out.observed = rec.snapshot()
	out.all = rec.snapshotAll()
	out.events = projectEvents(mon.snapshot(), pid)
	// exact comparison of deliveries
	if d := diffLogs(model.log, out.observed, false); d != "" {
		fail("deliveries deviate from the model: %s", d)
	}
	// senders
	for _, ev := range out.observed {
		if (ev.Kind == "msg" || ev.Kind == "crash" || ev.Kind == "gate" || ev.Kind == "icrash") && ev.ID >= 0 {
			if ev.Sender != expSender(ev.ID) {
				fail("message %d was delivered with sender %q, sent with %q", ev.ID, ev.Sender, expSender(ev.ID))
				break
			}
		}
	}
	// engine events about this actor
	if strings.Join(out.events, " ") != strings.Join(model.events, " ") {
		fail("engine events for the actor: observed [%s], model [%s]", strings.Join(out.events, " "), strings.Join(model.events, " "))
	}
	// middleware nesting
	if spec.MW > 0 {
		if d := checkNesting(out.all, spec.MW); d != "" {
			fail("middleware: %s", d)
		}
		if spec.Children > 0 {
			if d := kids.checkNesting(); d != "" {
				fail("middleware of a child: %s", d)
			}
		}
	}
	// bystander still answers: the process and the engine are alive
	if !bystanderOK(e, wd) {
		fail("a bystander actor on the same engine no longer answers")
	}
	finishScript(c, spec, &out)
	return
}

func finishScript(c *caseCtx, spec *scriptSpec, out *scriptOutcome) {
	res := &out.res
	m := out.sim
	res.Desc = spec.String()
	res.count("deliveries", int64(len(out.observed)))
	res.count("crashes", int64(m.crashes))
	res.count("restarts", int64(m.restarts))
	for k, v := range m.crashKinds {
		res.count("crash_in_"+k, int64(v))
	}
	if m.drainCrash {
		res.count("crash_while_draining", 1)
	}
	if m.replayCrash {
		res.count("crash_in_replay", 1)
	}
	if m.pillInReplay {
		res.count("pill_in_replay", 1)
	}
	if m.stopped {
		res.count("ended", 1)
	}
	if m.internalRestarts > 0 {
		res.count("internal_error_restarts", int64(m.internalRestarts))
	}
	var exp []string
	for _, e := range m.log {
		exp = append(exp, e.String())
	}
	// abstract signature: the shape of the expected trace
	shape := make([]string, 0, len(m.log))
	for _, e := range m.log {
		shape = append(shape, fmt.Sprintf("%d%s", e.Inc, e.Kind[:1]))
	}
	if len(shape) > 300 {
		shape = shape[:300]
	}
	res.Sig = sigHash(spec.InboxSize > 1, spec.MaxRestarts, spec.MW, strings.Join(shape, ""), strings.Join(m.events, ","))
	if res.Verdict != vHeld || c.n < 3 {
		var obs []string
		for _, e := range out.observed {
			obs = append(obs, e.String())
		}
		if len(exp) > 120 {
			exp = append(exp[:60], append([]string{"..."}, exp[len(exp)-60:]...)...)
		}
		if len(obs) > 120 {
			obs = append(obs[:60], append([]string{"..."}, obs[len(obs)-60:]...)...)
		}
		res.Sample = map[string]any{"script": spec.String(), "model_deliveries": exp, "observed_deliveries": obs, "model_events": m.events, "observed_events": out.events}
	}
}

func describeMsg(m any) (string, int) {
	switch x := m.(type) {
	case actor.Initialized:
		return "Initialized", 0
	case actor.Started:
		return "Started", 0
	case actor.Stopped:
		return "Stopped", 0
	case *uMsg:
		return x.Kind.String(), x.ID
	}
	return fmt.Sprintf("%T", m), 0
}

func lastInc(log []expEv) int {
	if len(log) == 0 {
		return 1
	}
	return log[len(log)-1].Inc
}

func hasFinalStopped(evs []recEv) bool {
	return len(evs) > 0 && evs[len(evs)-1].Kind == "Stopped"
}

func finalStoppedSeq(evs []recEv) int64 {
	if hasFinalStopped(evs) {
		return int64(evs[len(evs)-1].ID)
	}
	return 0
}

func logHas(evs []recEv, kind string, id int) bool {
	for _, e := range evs {
		if e.Kind == kind && e.ID == id {
			return true
		}
	}
	return false
}

func modelHas(evs []expEv, kind string, id int) bool {
	for _, e := range evs {
		if e.Kind == kind && e.ID == id {
			return true
		}
	}
	return false
}

func tailStr(evs []recEv, n int) string {
	if len(evs) > n {
		evs = evs[len(evs)-n:]
	}
	var s []string
	for _, e := range evs {
		s = append(s, e.String())
	}
	return strings.Join(s, " ")
}

// diffLogs compares expected and observed deliveries; with prefixOK the
// observed log may be a proper prefix of the expected one.
func diffLogs(exp []expEv, obs []recEv, prefixOK bool) string {
	for i := 0; i < len(obs); i++ {
		if i >= len(exp) {
			return fmt.Sprintf("%d extra deliveries beyond the model's %d, first: %s", len(obs)-len(exp), len(exp), obs[i])
		}
		e, o := exp[i], obs[i]
		same := e.Inc == o.Inc && e.Kind == o.Kind
		if same && (e.Kind == "msg" || e.Kind == "crash" || e.Kind == "gate" || e.Kind == "icrash") {
			same = e.ID == o.ID
		}
		if !same {
			lo := i - 4
			if lo < 0 {
				lo = 0
			}
			var ctxs []string
			for j := lo; j < i; j++ {
				ctxs = append(ctxs, obs[j].String())
			}
			return fmt.Sprintf("delivery #%d is %s, the model expects %s (after %s)", i, o, e, strings.Join(ctxs, " "))
		}
	}
	if !prefixOK && len(obs) < len(exp) {
		return fmt.Sprintf("only %d of %d expected deliveries happened; next expected: %s", len(obs), len(exp), exp[len(obs)])
	}
	return ""
}

// checkNesting verifies that the interleaved middleware/receiver log is a
// concatenation of blocks enter0..enter(n-1) recv exit(n-1)..exit0 with the same
// message and sender at every layer.
func checkNesting(all []recEv, n int) string {
	i := 0
	blocks := 0
	for i < len(all) {
		var tag string
		for l := 0; l < n; l++ {
			if i >= len(all) || all[i].Kind != "enter" || all[i].Layer != l {
				return fmt.Sprintf("block %d: expected enter of layer %d, got %s (a delivery bypassed or reordered the chain)", blocks, l, evAt(all, i))
			}
			if l == 0 {
				tag = all[i].Sender
			} else if all[i].Sender != tag {
				return fmt.Sprintf("block %d: layer %d saw message/sender %q, layer 0 saw %q", blocks, l, all[i].Sender, tag)
			}
			i++
		}
		if i >= len(all) || all[i].Kind == "enter" || all[i].Kind == "exit" {
			return fmt.Sprintf("block %d: the chain ran but the receiver was not called (%s)", blocks, evAt(all, i))
		}
		// receiver event: compare with what the middleware saw
		rk := all[i].Kind
		want := strings.SplitN(tag, "|", 2)[0]
		if rk != want {
			return fmt.Sprintf("block %d: receiver handled %s inside a chain that was entered for %s", blocks, rk, want)
		}
		i++
		for l := n - 1; l >= 0; l-- {
			if i >= len(all) || all[i].Kind != "exit" || all[i].Layer != l {
				return fmt.Sprintf("block %d: expected exit of layer %d, got %s", blocks, l, evAt(all, i))
			}
			if all[i].Sender != tag {
				return fmt.Sprintf("block %d: when layer %d returned the Context showed message/sender %q, on the way in it showed %q: inside the chain the Context must show the message and sender of that delivery", blocks, l, all[i].Sender, tag)
			}
			i++
		}
		blocks++
	}
	return ""
}

func evAt(all []recEv, i int) string {
	if i >= len(all) {
		return "end of log"
	}
	return all[i].String()
}

type pingMsg struct{ ch chan struct{} }

func bystanderOK(e *actor.Engine, wd time.Duration) bool {
	ch := make(chan struct{})
	pid := e.SpawnFunc(func(c *actor.Context) {
		if p, ok := c.Message().(pingMsg); ok {
			close(p.ch)
		}
	}, "bystander")
	e.Send(pid, pingMsg{ch: ch})
	select {
	case <-ch:
		e.Poison(pid)
		return true
	case <-time.After(wd):
		return false
	}
}

// lostRequestProof decides on state that a stop request can no longer take
// effect. S1 is sent after the request; once S1 has been handled S2 is sent, so
// S2 sits in a later inbox batch than the request. The worker finishes a batch
// (crash, restart delay and replay of the restart buffer included) before it
// pops the next one, so when S2 is handled by Receive the request's batch is
// over and the actor has survived it.
func lostRequestProof(e *actor.Engine, pid *actor.PID, rec *recorder, wd time.Duration) bool {
	for _, id := range []int{-21, -22} {
		e.Send(pid, &uMsg{Kind: itMsg, ID: id})
		if !waitFor(wd/2, func() bool { return logHas(rec.snapshot(), "msg", id) }) {
			return false
		}
	}
	return true
}
