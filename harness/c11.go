package main

// C11 — request/response: correlated, at most once, bounded by the timeout.
//
// Requesters issue Engine.Request with a unique payload id to responders whose
// behaviour is scripted per request: reply at once, reply when the harness says
// so (before Result is called / long after the timeout), reply twice, never
// reply. Oracle per request: a returned value is the reply the responder sent
// for that very id; an error only after at least the timeout has passed since
// Result was called; a reply that had been sent before Result was called is
// returned; afterwards the response PID is unregistered and a late reply is one
// DeadLetterEvent addressed to that response PID.

import (
	"context"
	"fmt"
	"strings"
	"sync"
	"sync/atomic"
	"time"

	"github.com/anthdm/hollywood/actor"
	"github.com/anthdm/hollywood/remote"
)

func init() {
	register(&prop{
		id:    "C11",
		level: "exploration",
		rule: "PRNG rounds: 1-32 concurrent requesters x 1-4 responders x behaviour per request {immediate, released-before-Result, late (released after the timeout error was returned), twice, never, Result called after the timeout, two replies back to back, 3-5 replies from different goroutines in flight before Result, no reply with a zero or negative timeout, reply waiting before Result() is called with a timeout of a few nanoseconds}, issued through Engine.Request or through Context.Request of an actor (also one whose spawn context is cancelled); tcp: requests to an actor on another node interleaved with fire-and-forget messages to it; every request carries a unique id and every reply names the id it answers; " +
			"non-trivial = >=2 requests outstanding at once; distinct by (requesters, responders, multiset of behaviours). Rounds in which ActorDuplicateIdEvent{response/...} occurs (random response-id collision, D13) are classified and not judged",
		assumptions: []string{
			"timeouts are only judged from below: an error must not come before the timeout has elapsed on the monotonic clock; that it comes at all is covered by a generous watchdog; when it expires the verdict is taken from the state of the process: at rest (every goroutine parked, see atRest) means Result() will never return - a violation - anything else is inconclusive",
			"where reply and timeout race (reply released around the deadline) both outcomes are accepted; the harness avoids that region: replies are released either before Result is called or after Result has returned",
			"a third reply to one request would block the responder in the real code (result channel of capacity 1): outside the statement, not generated",
		},
		modes: func(tier string, seed int64) []modeSpec {
			n := 240
			if tier == "thorough" {
				n = 16000
			}
			return []modeSpec{
				{name: "storm", n: 16, perChild: 1, timeout: 30 * time.Minute},
				{name: "req", n: n, perChild: n / 16, timeout: 30 * time.Minute},
				{name: "req-chaos", n: n, perChild: n / 16, timeout: 30 * time.Minute, env: []string{"VERIF_HOOK=chaos", "VERIF_HOOK_PROB=30", "VERIF_HOOK_MAXUS=50"}},
				{name: "tcp", n: 8 + n/100, perChild: 2, netns: true, timeout: 20 * time.Minute},
			}
		},
		run: func(c *caseCtx) caseResult {
			if c.mode == "storm" {
				return c11Storm(c)
			}
			if c.mode == "tcp" {
				return c11Tcp(c)
			}
			return c11Run(c)
		},
		post: func(a *aggregate) {
			// random 31-bit ids of at most a few dozen simultaneously outstanding requests collide with
			// probability ~1e-7 per round: two or more collisions in one run are not chance
			if n := a.counters["response_id_collisions"]; n >= 2 {
				a.violations = append(a.violations, caseResult{Verdict: vViolated, Case: -1, Mode: "storm",
					Detail: fmt.Sprintf("response ids of concurrently outstanding requests collided %d times in this run (ActorDuplicateIdEvent for response/...): concurrent requests are not kept apart", n)})
			}
		},
		minDistinct: 30,
	})
}

const (
	bhImmediate = iota
	bhBeforeResult
	bhLate
	bhTwice
	bhNever
	bhDelayedResult // reply at once, Result() called only after more than the timeout has passed since Request()
	bhTwiceNow      // two replies back to back from inside Receive
	bhFanOut        // 3-5 replies from different goroutines, all on their way before Result() is called
	bhNeverNoTime   // no reply, and a timeout that is already used up (zero or negative)
	bhWaitingTiny   // the reply is waiting before Result() is called, the timeout is a few nanoseconds: the reply wins
)

type reqMsg struct {
	ID int
	Bh int
}
type replyMsg struct {
	ForID int
	Nth   int
}

type c11Responder struct {
	mu      sync.Mutex
	pending map[int]*actor.PID // request id -> sender (response PID)
	answers map[int]int
	eng     *actor.Engine
}

func (rsp *c11Responder) Receive(c *actor.Context) {
	switch m := c.Message().(type) {
	case *reqMsg:
		userPerturb()
		rsp.mu.Lock()
		rsp.pending[m.ID] = c.Sender()
		rsp.mu.Unlock()
		switch m.Bh {
		case bhImmediate, bhTwice, bhDelayedResult, bhWaitingTiny:
			c.Respond(&replyMsg{ForID: m.ID, Nth: 1})
			rsp.mu.Lock()
			rsp.answers[m.ID]++
			rsp.mu.Unlock()
		case bhTwiceNow:
			c.Respond(&replyMsg{ForID: m.ID, Nth: 1})
			rsp.mu.Lock()
			rsp.answers[m.ID]++
			rsp.mu.Unlock()
			// the second one may have to wait until Result() has taken the first (one-slot channel)
			c.Respond(&replyMsg{ForID: m.ID, Nth: 2})
		}
	}
}

// release makes the responder side answer request id now (from outside Receive, as a late reply would)
func (rsp *c11Responder) release(id, nth int) *actor.PID {
	rsp.mu.Lock()
	to := rsp.pending[id]
	rsp.answers[id]++
	rsp.mu.Unlock()
	if to != nil {
		rsp.eng.Send(to, &replyMsg{ForID: id, Nth: nth})
	}
	return to
}

func (rsp *c11Responder) answered(id int) bool {
	rsp.mu.Lock()
	defer rsp.mu.Unlock()
	return rsp.answers[id] > 0
}

func (rsp *c11Responder) got(id int) bool {
	rsp.mu.Lock()
	defer rsp.mu.Unlock()
	return rsp.pending[id] != nil
}

func c11Run(c *caseCtx) (res caseResult) {
	r := c.rng
	wd := watchdog(c.tier)
	e, mon, _, err := newMonitoredEngine()
	if err != nil {
		res.inconclusive("engine: %v", err)
		return
	}
	nRsp := 1 + r.Intn(4)
	nReq := 1 + r.Intn(32)
	timeout := time.Duration(30+r.Intn(50)) * time.Millisecond
	var rsps []*c11Responder
	var rpids []*actor.PID
	for i := 0; i < nRsp; i++ {
		rsp := &c11Responder{pending: map[int]*actor.PID{}, answers: map[int]int{}, eng: e}
		rsps = append(rsps, rsp)
		rpids = append(rpids, e.Spawn(func() actor.Receiver { return rsp }, "rsp", actor.WithID(fmt.Sprint(i)), actor.WithInboxSize(pick(r, 1, 8, 1024))))
	}
	cancelled, cancel := context.WithCancel(context.Background())
	cancel()
	askers := []*actor.PID{
		e.Spawn(func() actor.Receiver { return &respawnParent{} }, "asker", actor.WithID("plain")),
		e.Spawn(func() actor.Receiver { return &respawnParent{} }, "asker", actor.WithID("ctx"), actor.WithContext(cancelled)),
	}
	type outcome struct {
		id, bh, rsp int
		val         any
		err         error
		elapsed     time.Duration
		respPID     *actor.PID
		regAfter    bool
		finished    bool
		note        string
	}
	outs := make([]outcome, nReq)
	bhCount := map[int]int{}
	var wg sync.WaitGroup
	startCh := make(chan struct{})
	var stuck int32
	var fanStarted, fanReturned int64
	for i := 0; i < nReq; i++ {
		i := i
		o := &outs[i]
		o.id = i + 1
		o.bh = pick(r, bhImmediate, bhImmediate, bhBeforeResult, bhLate, bhTwice, bhNever, bhDelayedResult, bhTwiceNow, bhFanOut, bhNeverNoTime, bhWaitingTiny)
		o.rsp = r.Intn(nRsp)
		bhCount[o.bh]++
		wg.Add(1)
		go func() {
			defer wg.Done()
			<-startCh
			rsp := rsps[o.rsp]
			to := timeout
			if o.bh == bhImmediate || o.bh == bhBeforeResult || o.bh == bhTwice || o.bh == bhTwiceNow || o.bh == bhFanOut {
				to = 20 * time.Second // the reply is there (or on its way): the timeout must not matter
			}
			if o.bh == bhWaitingTiny {
				to = time.Duration(1+o.id%500) * time.Nanosecond
			}
			if o.bh == bhNeverNoTime {
				to = time.Duration(-(o.id % 3)) * time.Millisecond // 0, -1ms, -2ms: e.g. time.Until(deadline) with nothing left
			}
			var resp *actor.Response
			switch o.id % 3 {
			case 0:
				resp = e.Request(rpids[o.rsp], &reqMsg{ID: o.id, Bh: o.bh}, to)
			default:
				// the request is issued by an actor from inside Receive (Context.Request); the actor may have
				// been spawned with a context of its own that is already cancelled - the request's timeout is
				// the one given here all the same
				got := make(chan *actor.Response, 1)
				e.Send(askers[o.id%3-1], c10Do{f: func(c *actor.Context) {
					got <- c.Request(rpids[o.rsp], &reqMsg{ID: o.id, Bh: o.bh}, to)
				}})
				select {
				case resp = <-got:
				case <-time.After(wd):
					atomic.AddInt32(&stuck, 1)
					return
				}
			}
			o.respPID = resp.PID()
			if o.bh == bhBeforeResult {
				// the reply is sent, and that send has returned, before Result is even called
				if !waitFor(wd, func() bool { return rsp.got(o.id) }) {
					atomic.AddInt32(&stuck, 1)
					return
				}
				rsp.release(o.id, 1)
			}
			if o.bh == bhFanOut {
				if !waitFor(wd, func() bool { return rsp.got(o.id) }) {
					atomic.AddInt32(&stuck, 1)
					return
				}
				k := 3 + o.id%3
				var first int32
				for j := 1; j <= k; j++ {
					j := j
					atomic.AddInt64(&fanStarted, 1)
					go func() {
						rsp.release(o.id, j)
						atomic.AddInt32(&first, 1)
						atomic.AddInt64(&fanReturned, 1)
					}()
				}
				// the first reply has been accepted, the others are inside their Send (or already through)
				waitFor(wd, func() bool { return atomic.LoadInt32(&first) > 0 })
				time.Sleep(2 * time.Millisecond)
			}
			if o.bh == bhWaitingTiny {
				// the reply is in the Response (Respond has returned) before Result() is called
				if !waitFor(wd, func() bool { return rsp.answered(o.id) }) {
					atomic.AddInt32(&stuck, 1)
					return
				}
			}
			if o.bh == bhDelayedResult {
				// scatter/gather: the reply has been sent (Respond returned), then more than the timeout passes
				// before the caller gets round to Result(): the reply that is waiting must be returned
				if !waitFor(wd, func() bool { return rsp.answered(o.id) }) {
					atomic.AddInt32(&stuck, 1)
					return
				}
				time.Sleep(to + to/2)
			}
			t0 := time.Now()
			o.val, o.err = resp.Result()
			o.elapsed = time.Since(t0)
			o.regAfter = e.Registry.GetPID("response", strings.TrimPrefix(o.respPID.ID, "response/")) != nil
			o.finished = true
		}()
	}
	close(startCh)
	done := make(chan struct{})
	go func() { wg.Wait(); close(done) }()
	res.Desc = fmt.Sprintf("requests=%d responders=%d timeout=%v behaviours=%v", nReq, nRsp, timeout, bhCount)
	select {
	case <-done:
	case <-time.After(wd + 25*time.Second):
		pending := 0
		for i := range outs {
			if !outs[i].finished {
				pending++
			}
		}
		if rest, where := atRest(3 * time.Second); rest {
			res.violate("%d call(s) of Result() have not returned long after every timeout has passed, and never will: the process is at rest (%s) (%s)", pending, where, res.Desc)
		} else {
			res.inconclusive("Result() did not return within the watchdog (%s; %s)", res.Desc, where)
		}
		return
	}
	// every goroutine that sent one of several replies to one request has come back from its send
	fanProg := func() int64 { return atomic.LoadInt64(&fanReturned) }
	if fin, _ := settle(wd, 10*time.Second, func() bool { return fanProg() == atomic.LoadInt64(&fanStarted) }, fanProg); !fin {
		if rest, where := atRest(3 * time.Second); rest {
			res.violate("%d of %d concurrent replies are still inside their send after Result() has returned, and the process is at rest (%s): the repliers are blocked for good", atomic.LoadInt64(&fanStarted)-fanProg(), atomic.LoadInt64(&fanStarted), where)
		} else {
			res.inconclusive("concurrent replies did not all return (%s)", where)
		}
		return
	}
	if atomic.LoadInt32(&stuck) > 0 {
		res.inconclusive("a responder did not receive its request")
		return
	}
	mon.flush(e, wd)
	collision := mon.count(func(x any) bool {
		ev, ok := x.(actor.ActorDuplicateIdEvent)
		return ok && strings.HasPrefix(ev.PID.ID, "response/")
	}) > 0
	if collision {
		res.count("response_id_collisions", 1)
		res.Desc += " [response id collision: round not judged]"
		return
	}
	// late replies and second replies: released now, after Result has returned
	type lateRec struct {
		id int
		to *actor.PID
	}
	var lates []lateRec
	for i := range outs {
		o := &outs[i]
		switch o.bh {
		case bhLate:
			if to := rsps[o.rsp].release(o.id, 1); to != nil {
				lates = append(lates, lateRec{o.id, to})
			}
		case bhTwice:
			if to := rsps[o.rsp].release(o.id, 2); to != nil {
				lates = append(lates, lateRec{o.id, to})
			}
		}
	}
	mon.flush(e, wd)
	for i := range outs {
		o := &outs[i]
		if !o.finished {
			continue
		}
		switch o.bh {
		case bhImmediate, bhBeforeResult, bhTwice, bhDelayedResult, bhTwiceNow, bhFanOut, bhWaitingTiny:
			if o.err != nil {
				res.violate("request %d (behaviour %d): Result returned error %v although the reply had been sent (elapsed %v)", o.id, o.bh, o.err, o.elapsed)
				continue
			}
		case bhLate, bhNever, bhNeverNoTime:
			if o.err == nil {
				res.violate("request %d got a value (%v) although its responder never replied before Result returned", o.id, o.val)
				continue
			}
			if o.elapsed < timeout && o.bh != bhNeverNoTime {
				res.violate("request %d: timeout error after %v, before the timeout of %v had passed", o.id, o.elapsed, timeout)
			}
		}
		if o.err == nil {
			rp, ok := o.val.(*replyMsg)
			if !ok {
				res.violate("request %d: Result returned %T", o.id, o.val)
			} else if rp.ForID != o.id {
				res.violate("request %d received the reply to request %d (cross-talk)", o.id, rp.ForID)
			} else if rp.Nth != 1 && o.bh != bhFanOut {
				res.violate("request %d received reply number %d", o.id, rp.Nth)
			}
		}
		if o.regAfter {
			res.violate("request %d: the response PID %v was still registered after Result had returned (err=%v)", o.id, o.respPID, o.err)
		}
	}
	// a second wave of plain requests: whatever the first wave left behind (surplus replies, recycled
	// response state) must not reach them
	nWave := 4 + r.Intn(12)
	var wwg sync.WaitGroup
	waveErr := make([]string, nWave)
	for i := 0; i < nWave; i++ {
		i := i
		wwg.Add(1)
		go func() {
			defer wwg.Done()
			id := 100000 + i
			v, err := e.Request(rpids[i%nRsp], &reqMsg{ID: id, Bh: bhImmediate}, 20*time.Second).Result()
			if err != nil {
				waveErr[i] = fmt.Sprintf("request %d of the second wave: %v", id, err)
			} else if rp, ok := v.(*replyMsg); !ok || rp.ForID != id {
				waveErr[i] = fmt.Sprintf("request %d of the second wave received %+v: a reply meant for an earlier request (cross-talk)", id, v)
			}
		}()
	}
	wdone := make(chan struct{})
	go func() { wwg.Wait(); close(wdone) }()
	select {
	case <-wdone:
		for _, w := range waveErr {
			if w != "" {
				res.violate("%s", w)
				break
			}
		}
	case <-time.After(wd + 25*time.Second):
		res.inconclusive("second wave did not finish")
	}
	// every late / second reply is exactly one dead letter addressed to that response PID
	for _, l := range lates {
		n := mon.count(func(x any) bool {
			ev, ok := x.(actor.DeadLetterEvent)
			if !ok {
				return false
			}
			rp, ok := ev.Message.(*replyMsg)
			return ok && rp.ForID == l.id && ev.Target != nil && ev.Target.Equals(l.to)
		})
		if n != 1 {
			res.violate("late reply to request %d (response PID %v): %d DeadLetterEvents, expected exactly 1", l.id, l.to, n)
		}
	}
	res.count("requests", int64(nReq))
	res.count("late_or_second_replies", int64(len(lates)))
	for k, v := range bhCount {
		res.count(fmt.Sprintf("behaviour_%d", k), int64(v))
	}
	if nReq >= 2 {
		res.Sig = sigHash("req", nReq, nRsp, fmt.Sprint(bhCount))
	}
	if c.n < 2 || res.Verdict == vViolated {
		var ss []string
		for _, o := range outs {
			ss = append(ss, fmt.Sprintf("req%d bh=%d -> val=%v err=%v elapsed=%v", o.id, o.bh, o.val, o.err, o.elapsed.Round(time.Millisecond)))
		}
		res.Sample = map[string]any{"scenario": res.Desc, "outcomes": ss}
	}
	for _, p := range rpids {
		e.Poison(p)
	}
	return res
}

// c11Storm: many goroutines issue echo requests at the same time; the creation of
// the response processes races.
func c11Storm(c *caseCtx) (res caseResult) {
	r := c.rng
	wd := watchdog(c.tier)
	e, mon, _, err := newMonitoredEngine()
	if err != nil {
		res.inconclusive("engine: %v", err)
		return
	}
	nG := 16 + r.Intn(48)
	per := 300 + r.Intn(500)
	rsp := e.SpawnFunc(func(c *actor.Context) {
		if m, ok := c.Message().(*reqMsg); ok {
			c.Respond(&replyMsg{ForID: m.ID, Nth: 1})
		}
	}, "echo", actor.WithID("0"))
	var wg sync.WaitGroup
	var wrong, errs int64
	var firstWrong atomic.Value
	startCh := make(chan struct{})
	for g := 0; g < nG; g++ {
		g := g
		wg.Add(1)
		go func() {
			defer wg.Done()
			<-startCh
			for i := 0; i < per; i++ {
				id := g*1000000 + i
				v, err := e.Request(rsp, &reqMsg{ID: id, Bh: bhImmediate}, 20*time.Second).Result()
				if err != nil {
					atomic.AddInt64(&errs, 1)
					continue
				}
				if rp, ok := v.(*replyMsg); !ok || rp.ForID != id {
					atomic.AddInt64(&wrong, 1)
					firstWrong.Store(fmt.Sprintf("request %d received %v", id, v))
				}
			}
		}()
	}
	close(startCh)
	done := make(chan struct{})
	go func() { wg.Wait(); close(done) }()
	res.Desc = fmt.Sprintf("storm goroutines=%d requests each=%d", nG, per)
	select {
	case <-done:
	case <-time.After(wd + 60*time.Second):
		res.inconclusive("request storm did not finish (%s)", res.Desc)
		return
	}
	mon.flush(e, wd)
	coll := mon.count(func(x any) bool {
		ev, ok := x.(actor.ActorDuplicateIdEvent)
		return ok && strings.HasPrefix(ev.PID.ID, "response/")
	})
	res.count("response_id_collisions", int64(coll))
	res.count("storm_requests", int64(nG*per))
	if coll == 0 {
		// (with a collision the replies of the two requests legitimately cross: classified by the run-level rule)
		if w := atomic.LoadInt64(&wrong); w > 0 {
			res.violate("%d requests received the reply to another request, e.g. %v", w, firstWrong.Load())
		}
		if n := atomic.LoadInt64(&errs); n > 0 {
			res.violate("%d echo requests timed out although the responder replies at once", n)
		}
	}
	res.Sig = sigHash("storm", nG/8, per/100)
	if c.n < 1 || res.Verdict == vViolated {
		res.Sample = map[string]any{"scenario": res.Desc, "response_id_collisions": coll}
	}
	e.Poison(rsp)
	return res
}

// c11Tcp: requests to an actor on another node over real loopback TCP, interleaved from the same
// goroutines with fire-and-forget messages to the same actor, which answers whoever shows up as the
// sender. Every Result() must return the reply to its own request.
func c11Tcp(c *caseCtx) (res caseResult) {
	r := c.rng
	wd := watchdog(c.tier)
	addrs := freeAddrs(c, 2)
	n1, err := c17StartNode(addrs[0], 1, nil)
	if err != nil {
		res.inconclusive("node 1: %v", err)
		return
	}
	defer func() { n1.rem.Stop().Wait() }()
	n2, err := c17StartNode(addrs[1], 2, nil)
	if err != nil {
		res.inconclusive("node 2: %v", err)
		return
	}
	defer func() { n2.rem.Stop().Wait() }()
	nG := 2 + r.Intn(6)
	per := 20 + r.Intn(60)
	var wg sync.WaitGroup
	bad := make([]string, nG)
	for g := 0; g < nG; g++ {
		g := g
		wg.Add(1)
		go func() {
			defer wg.Done()
			tgt := actor.NewPID(addrs[1], fmt.Sprintf("t/%d", g%2))
			for i := 0; i < per && bad[g] == ""; i++ {
				id := fmt.Sprintf("%d-%d", g, i)
				resp := n1.eng.Request(tgt, &remote.TestMessage{Data: []byte("req-" + id)}, wd)
				for k := 0; k < 1+i%3; k++ {
					n1.eng.Send(tgt, &remote.TestMessage{Data: []byte(fmt.Sprintf("note-%s-%d", id, k))})
				}
				v, err := resp.Result()
				if err != nil {
					bad[g] = fmt.Sprintf("request %s: %v", id, err)
				} else if m, ok := v.(*remote.TestMessage); !ok || string(m.Data) != "rep-"+id {
					bad[g] = fmt.Sprintf("request %s returned %v: the reply to something else (cross-talk)", id, v)
				}
			}
		}()
	}
	wg.Wait()
	for _, b := range bad {
		if strings.Contains(b, "cross-talk") {
			res.violate("%s", b)
		} else if b != "" && res.Verdict != vViolated {
			res.inconclusive("%s", b)
		}
	}
	// a reply that comes too late: the requester gets its timeout error, the response PID is gone, and the
	// late reply - it arrives over the wire - becomes a dead letter on the requester's node
	if res.Verdict != vViolated && res.Verdict != vInconclusive {
		lateResp := n1.eng.Request(actor.NewPID(addrs[1], "t/0"), &remote.TestMessage{Data: []byte("slowreq-1")}, 100*time.Millisecond)
		lateID := lateResp.PID().ID
		_, lateErr := lateResp.Result()
		if lateErr == nil {
			// (the timeout runs from the call of Result(): on a slow machine the reply may have made it)
			res.count("late_reply_came_in_time", 1)
		}
		if k, i := idKind(lateID); n1.eng.Registry.GetPID(k, i) != nil {
			res.violate("the response PID %s is still registered after Result() returned", lateID)
		}
		isLate := func(x any) bool {
			ev, ok := x.(actor.DeadLetterEvent)
			if !ok || ev.Target == nil || ev.Target.ID != lateID {
				return false
			}
			m, ok := ev.Message.(*remote.TestMessage)
			return ok && string(m.Data) == "rep-slowreq-1"
		}
		if lateErr == nil {
			isLate = func(any) bool { return true }
		}
		// the reply is on its way: it has arrived when a probe sent behind it over the same connection has
		probeResp := make(chan struct{})
		go func() {
			waitFor(wd, func() bool { return n1.mon.count(isLate) > 0 })
			close(probeResp)
		}()
		<-probeResp
		if n1.mon.count(isLate) == 0 {
			// decide on state: a request sent after the late reply was due has been answered over the same
			// connection (replies travel in order), so the late reply has been read by the requester's node
			v, err := n1.eng.Request(actor.NewPID(addrs[1], "t/0"), &remote.TestMessage{Data: []byte("req-after-late")}, wd).Result()
			n1.mon.flush(n1.eng, wd)
			if m, ok := v.(*remote.TestMessage); err == nil && ok && string(m.Data) == "rep-after-late" && n1.mon.count(isLate) == 0 {
				res.violate("a reply that arrived from another node after Result() had returned its timeout error did not become a dead letter (a later request over the same connection has been answered, so the late reply has been read)")
			} else if n1.mon.count(isLate) == 0 {
				res.inconclusive("late reply not seen and the follow-up request was not answered")
			}
		}
	}
	res.Desc = fmt.Sprintf("tcp: %d requesters x %d requests to an actor on another node, fire-and-forget messages in between", nG, per)
	res.count("remote_requests", int64(nG*per))
	res.Sig = sigHash("c11tcp", nG, per/10)
	return res
}
