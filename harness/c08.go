package main

// C08 — supervision tree: a stopping parent takes all descendants down first;
// Children() lists exactly the live children; Parent() names the spawner.
//
// Every node of a PRNG tree records, with one global sequence counter, the begin
// and the end of each Stopped it handles and, inside its Stopped handler, which
// of its descendants are still registered. Children()/Parent() are read from
// inside Receive on request.

import (
	"context"
	"fmt"
	"sort"
	"strings"
	"sync"
	"sync/atomic"
	"time"

	"github.com/anthdm/hollywood/actor"
)

func init() {
	register(&prop{
		id:    "C08",
		level: "exploration",
		rule: "PRNG trees (depth 1-4 x fan-out 1-5, <=150 actors) with idle/busy/crashing nodes, nodes that stop themselves in Started, direct stops of inner nodes, third parties poisoning descendants concurrently with the shutdown, shutdown from the root or an inner node by Poison or Stop; " +
			"oracle per parent/child edge: every Stopped of the child ends before the parent's final Stopped begins, no descendant is registered while an ancestor handles Stopped, all of it before the stop context is done; Children() == the model's live children, Parent() == the spawner; directed histories: child held inside Stopped while the parent is shut down, self-stopping children, a child id respawned while a third party stops it, a supervisor that spawns a replacement for every worker that says goodbye from its Stopped handler and is then stopped itself, a parent stopped while a child is inside a Receive of 4 s (thorough: 12 s), children of one parent under different names that carry the same id. Non-trivial = >=2 levels; distinct by (tree shape, behaviours, shutdown kind)",
		assumptions: []string{
			"the order of Stopped deliveries is taken from one atomic sequence counter incremented at the begin and at the end of every Stopped handler",
			"a held Stopped handler (directed scenario) is released after 2 ms: the delay only gives an overtaking parent the chance to show itself, the verdict is taken on the sequence numbers",
		},
		modes: func(tier string, seed int64) []modeSpec {
			n := 320
			if tier == "thorough" {
				n = 48000
			}
			return []modeSpec{
				{name: "tree", n: n, perChild: n / 16, timeout: 20 * time.Minute},
				{name: "tree-chaos", n: n, perChild: n / 16, timeout: 20 * time.Minute, env: []string{"VERIF_HOOK=chaos", "VERIF_HOOK_PROB=30", "VERIF_HOOK_MAXUS=50", "VERIF_HOOK_LOCKUS=400"}},
				{name: "directed", n: 72 * (1 + 7*b2int(tier == "thorough")), perChild: 6, timeout: 10 * time.Minute, env: []string{"VERIF_HOOK=chaos", "VERIF_HOOK_PROB=50", "VERIF_HOOK_MAXUS=50", "VERIF_HOOK_LOCKUS=400"}},
			}
		},
		run: func(c *caseCtx) caseResult {
			if c.mode == "directed" {
				return c08Directed(c)
			}
			return c08Tree(c)
		},
		minDistinct: 30,
	})
}

func b2int(b bool) int {
	if b {
		return 1
	}
	return 0
}

type tnode struct {
	idx      int
	parent   int
	kids     []int
	id       string // registry id
	selfStop bool   // poisons itself in Started
	busy     int    // work messages sent before the shutdown
	crash    bool   // receives a crash message before the shutdown
	holdStop bool   // its Stopped handler is held on a gate (directed)
}

type tlog struct {
	mu        sync.Mutex
	begins    map[int][]int64
	ends      map[int][]int64
	parentOf  map[int]string
	self      map[int]*actor.PID
	stillReg  map[int][][]string // per node, per Stopped handled: descendants still registered at that moment
	started   map[int]int
	holdGate  chan struct{}
	holdEnter chan struct{}
	spawnCtx  context.Context // if set, every node is spawned WithContext(spawnCtx)
	lazyKids  bool            // children are spawned on request instead of by Started
}

var treeSeq int64

type treeActor struct {
	n    *tnode
	tree []*tnode
	lg   *tlog
}

type tQuery struct{ reply chan []string }
type tSpawnKids struct{}
type tWork struct{}

func (a *treeActor) spawnKids(c *actor.Context) {
	for _, k := range a.n.kids {
		kn := a.tree[k]
		opts := []actor.OptFunc{actor.WithID(fmt.Sprint(kn.idx)), actor.WithMaxRestarts(50), actor.WithRestartDelay(0), actor.WithInboxSize(4)}
		if a.lg.spawnCtx != nil {
			opts = append(opts, actor.WithContext(a.lg.spawnCtx))
		}
		c.SpawnChild(func() actor.Receiver { return &treeActor{n: kn, tree: a.tree, lg: a.lg} }, "n", opts...)
	}
}

func (a *treeActor) desc(i int, out *[]int) {
	for _, k := range a.tree[i].kids {
		*out = append(*out, k)
		a.desc(k, out)
	}
}

func (a *treeActor) Receive(c *actor.Context) {
	switch m := c.Message().(type) {
	case actor.Started:
		a.lg.mu.Lock()
		a.lg.started[a.n.idx]++
		a.lg.parentOf[a.n.idx] = pidStr(c.Parent())
		a.lg.self[a.n.idx] = c.PID()
		a.lg.mu.Unlock()
		if a.lg.lazyKids {
			break // the children are spawned on request (tSpawnKids), not by Started: a restart does not spawn them again
		}
		a.spawnKids(c)
		if a.n.selfStop {
			c.Engine().Poison(c.PID())
		}
	case tSpawnKids:
		a.spawnKids(c)
		for _, k := range a.n.kids {
			c.Send(actor.NewPID("local", a.tree[k].id), tSpawnKids{})
		}
		if a.n.selfStop {
			c.Engine().Poison(c.PID())
		}
	case actor.Stopped:
		b := atomic.AddInt64(&treeSeq, 1)
		var ds []int
		a.desc(a.n.idx, &ds)
		var still []string
		for _, d := range ds {
			if c.GetPID(a.tree[d].id) != nil {
				still = append(still, fmt.Sprintf("%d: descendant %s still registered while its ancestor handles Stopped", a.n.idx, a.tree[d].id))
			}
		}
		if a.n.holdStop && a.lg.holdEnter != nil {
			select {
			case <-a.lg.holdEnter:
			default:
				close(a.lg.holdEnter)
			}
			<-a.lg.holdGate
		}
		userPerturb()
		e := atomic.AddInt64(&treeSeq, 1)
		a.lg.mu.Lock()
		a.lg.begins[a.n.idx] = append(a.lg.begins[a.n.idx], b)
		a.lg.ends[a.n.idx] = append(a.lg.ends[a.n.idx], e)
		a.lg.stillReg[a.n.idx] = append(a.lg.stillReg[a.n.idx], still)
		a.lg.mu.Unlock()
	case tQuery:
		var ids []string
		for _, p := range c.Children() {
			ids = append(ids, p.ID)
		}
		sort.Strings(ids)
		m.reply <- ids
	case tWork:
		userPerturb()
	case crashMsg:
		panic("scripted crash in tree node")
	}
}

func buildTree(c *caseCtx) []*tnode {
	r := c.rng
	depth := 1 + r.Intn(4)
	fan := 1 + r.Intn(5)
	tree := []*tnode{{idx: 0, parent: -1, id: "tree/0"}}
	level := []int{0}
	for d := 0; d < depth && len(tree) < 150; d++ {
		var next []int
		for _, p := range level {
			k := fan
			if d > 0 {
				k = r.Intn(fan + 1)
			}
			for i := 0; i < k && len(tree) < 150; i++ {
				n := &tnode{idx: len(tree), parent: p}
				n.id = tree[p].id + "/n/" + fmt.Sprint(n.idx)
				tree[p].kids = append(tree[p].kids, n.idx)
				tree = append(tree, n)
				next = append(next, n.idx)
			}
		}
		level = next
	}
	return tree
}

func queryChildren(e *actor.Engine, pid *actor.PID, wd time.Duration) ([]string, bool) {
	q := tQuery{reply: make(chan []string, 1)}
	e.Send(pid, q)
	select {
	case ids := <-q.reply:
		return ids, true
	case <-time.After(wd):
		return nil, false
	}
}

func newTlog() *tlog {
	return &tlog{begins: map[int][]int64{}, ends: map[int][]int64{}, parentOf: map[int]string{}, self: map[int]*actor.PID{}, started: map[int]int{}, stillReg: map[int][][]string{}}
}

func c08Tree(c *caseCtx) (res caseResult) {
	r := c.rng
	wd := watchdog(c.tier)
	e, mon, _, err := newMonitoredEngine()
	if err != nil {
		res.inconclusive("engine: %v", err)
		return
	}
	stoppedEvent := func(id string) bool {
		return mon.count(func(x any) bool { ev, ok := x.(actor.ActorStoppedEvent); return ok && ev.PID.ID == id }) > 0
	}
	tree := buildTree(c)
	lg := newTlog()
	// behaviours
	var selfStoppers []int
	for _, n := range tree[1:] {
		switch x := r.Intn(20); {
		case x == 0:
			n.selfStop = true
			selfStoppers = append(selfStoppers, n.idx)
		case x < 5:
			n.busy = 1 + r.Intn(30)
		}
	}
	for _, n := range tree {
		// a restarted node spawns its children again: keep that away from children that stop themselves
		ok := !n.selfStop && n.busy == 0 && r.Intn(12) == 0
		for _, k := range n.kids {
			if tree[k].selfStop {
				ok = false
			}
		}
		n.crash = ok
	}
	rootOpts := []actor.OptFunc{actor.WithID("0"), actor.WithInboxSize(4), actor.WithMaxRestarts(50), actor.WithRestartDelay(0)}
	ctxMode := r.Intn(4) // 0,1: default context; 2: spawn context cancelled before the shutdown; 3: already cancelled at spawn
	var cancelSpawn context.CancelFunc
	if ctxMode >= 2 {
		lg.spawnCtx, cancelSpawn = context.WithCancel(context.Background())
		rootOpts = append(rootOpts, actor.WithContext(lg.spawnCtx))
		if ctxMode == 3 {
			cancelSpawn()
		}
	}
	lg.lazyKids = len(selfStoppers) == 0 && r.Intn(3) == 0
	root := e.Spawn(func() actor.Receiver { return &treeActor{n: tree[0], tree: tree, lg: lg} }, "tree", rootOpts...)
	if lg.lazyKids {
		e.Send(root, tSpawnKids{})
		if !waitFor(wd, func() bool { lg.mu.Lock(); defer lg.mu.Unlock(); return len(lg.started) == len(tree) }) {
			res.inconclusive("the tree did not come up")
			return
		}
	}
	res.Desc = fmt.Sprintf("tree nodes=%d", len(tree))
	alive := make([]bool, len(tree))
	var markAlive func(i int, v bool)
	markAlive = func(i int, v bool) {
		alive[i] = v
		for _, k := range tree[i].kids {
			markAlive(k, v)
		}
	}
	markAlive(0, true)
	endedBy := func(i int) bool {
		lg.mu.Lock()
		defer lg.mu.Unlock()
		return len(lg.ends[i]) > 0
	}
	// nodes that stop themselves: wait for their (and their subtrees') end
	inSelf := map[int]bool{}
	for _, s := range selfStoppers {
		// a self stopper below another self stopper may never be spawned
		skip := false
		for p := tree[s].parent; p >= 0; p = tree[p].parent {
			if tree[p].selfStop {
				skip = true
			}
		}
		if skip {
			continue
		}
		inSelf[s] = true
	}
	for s := range inSelf {
		s := s
		// ActorStoppedEvent is published after the node has left the registry and its parent's map
		if !waitFor(wd, func() bool { return endedBy(s) && stoppedEvent(tree[s].id) }) {
			res.inconclusive("self-stopping node %d did not end", s)
			return
		}
		markAlive(s, false)
	}
	pidOf := func(i int) *actor.PID { return actor.NewPID("local", tree[i].id) }
	checkViews := func(when string) bool {
		for _, n := range tree {
			if !alive[n.idx] {
				continue
			}
			ids, ok := queryChildren(e, pidOf(n.idx), wd)
			if !ok {
				res.inconclusive("%s: node %d did not answer the Children() query", when, n.idx)
				return false
			}
			var want []string
			for _, k := range n.kids {
				if alive[k] {
					want = append(want, tree[k].id)
				}
			}
			sort.Strings(want)
			if strings.Join(ids, ",") != strings.Join(want, ",") {
				res.violate("%s: Children() of node %d (%s) = %v, the live children are %v", when, n.idx, n.id, ids, want)
			}
			lg.mu.Lock()
			par := lg.parentOf[n.idx]
			lg.mu.Unlock()
			wantPar := ""
			if n.parent >= 0 {
				wantPar = "local/" + tree[n.parent].id
			}
			if par != wantPar {
				res.violate("%s: Parent() of node %d = %q, spawned by %q", when, n.idx, par, wantPar)
			}
		}
		return true
	}
	if !checkViews("after spawn") {
		return
	}
	res.count("children_queries", int64(len(tree)))
	// a direct stop of an inner node
	if len(tree) > 2 && r.Intn(2) == 0 {
		x := 1 + r.Intn(len(tree)-1)
		if alive[x] {
			var ctx context.Context
			if r.Intn(2) == 0 {
				ctx = e.Poison(pidOf(x))
			} else {
				ctx = e.Stop(pidOf(x))
			}
			select {
			case <-ctx.Done():
			case <-time.After(wd):
				res.inconclusive("direct stop of node %d: context not done", x)
				return
			}
			c08JudgeSubtree(&res, e, tree, lg, x, "direct stop of an inner node")
			markAlive(x, false)
			if !checkViews("after a child stopped on its own") {
				return
			}
			res.count("direct_stops", 1)
		}
	}
	// where the shutdown will start
	top := 0
	if r.Intn(4) == 0 && len(tree) > 1 {
		top = 1 + r.Intn(len(tree)-1)
		if !alive[top] {
			top = 0
		}
	}
	// load and crashes just before the shutdown (a restarted inner node spawns its children again, also the ones
	// that were stopped: inner nodes only crash when the whole tree goes down, where no view is compared afterwards)
	for _, n := range tree {
		if !alive[n.idx] {
			continue
		}
		for i := 0; i < n.busy; i++ {
			e.Send(pidOf(n.idx), tWork{})
		}
		if n.crash && (len(n.kids) == 0 || top == 0) {
			e.Send(pidOf(n.idx), crashMsg{ID: n.idx})
			e.Send(pidOf(n.idx), tWork{})
			res.count("crashing_nodes", 1)
		}
	}
	// shutdown, possibly with third parties poisoning descendants at the same time
	var third []int
	if r.Intn(2) == 0 {
		var ds []int
		(&treeActor{tree: tree}).desc(top, &ds)
		for _, d := range ds {
			if alive[d] && r.Intn(4) == 0 && len(third) < 4 {
				third = append(third, d)
			}
		}
	}
	if ctxMode == 2 {
		cancelSpawn() // the common 'cancel(); Poison(root)' sequence
	}
	var wg sync.WaitGroup
	thirdCtx := make([]context.Context, len(third))
	startCh := make(chan struct{})
	for i, d := range third {
		i, d := i, d
		wg.Add(1)
		go func() {
			defer wg.Done()
			<-startCh
			thirdCtx[i] = e.Poison(pidOf(d))
		}()
	}
	graceful := r.Intn(3) != 0
	close(startCh)
	var ctx context.Context
	if graceful {
		ctx = e.Poison(pidOf(top))
	} else {
		ctx = e.Stop(pidOf(top))
	}
	wg.Wait()
	select {
	case <-ctx.Done():
	case <-time.After(wd):
		res.inconclusive("shutdown of node %d: stop context not done within the watchdog (%d third-party poisons)", top, len(third))
		return
	}
	c08JudgeSubtree(&res, e, tree, lg, top, fmt.Sprintf("shutdown from node %d (graceful=%v, third-party poisons=%v)", top, graceful, third))
	for i, tc := range thirdCtx {
		select {
		case <-tc.Done():
		case <-time.After(wd):
			res.neverOrNotYet("third-party Poison of node %d: context did not become done although the whole subtree has stopped", third[i])
		}
	}
	if top != 0 {
		markAlive(top, false)
		if !checkViews("after an inner subtree was shut down") {
			return
		}
		e.Poison(root)
	}
	res.count("third_party_poisons", int64(len(third)))
	res.count("nodes", int64(len(tree)))
	depth := 0
	for _, n := range tree {
		d := 0
		for p := n.parent; p >= 0; p = tree[p].parent {
			d++
		}
		if d > depth {
			depth = d
		}
	}
	if depth >= 1 {
		res.Sig = sigHash("tree", len(tree), depth, len(third), graceful, top != 0, len(inSelf), ctxMode, lg.lazyKids)
	}
	res.Desc = fmt.Sprintf("tree nodes=%d depth=%d selfstop=%d third=%v top=%d graceful=%v spawnCtxMode=%d", len(tree), depth, len(inSelf), third, top, graceful, ctxMode)
	if c.n < 2 || res.Verdict == vViolated {
		var shape []string
		for _, n := range tree {
			if len(n.kids) > 0 {
				shape = append(shape, fmt.Sprintf("%d->%v", n.idx, n.kids))
			}
		}
		lg.mu.Lock()
		res.Sample = map[string]any{"scenario": res.Desc, "tree": shape, "stopped_begin_seq": fmt.Sprint(lg.begins), "stopped_end_seq": fmt.Sprint(lg.ends)}
		lg.mu.Unlock()
	}
	return res
}

func idKind(id string) (string, string) {
	i := strings.LastIndex(id, "/")
	return id[:i], id[i+1:]
}

// c08JudgeSubtree is evaluated at the moment the stop context of `top` is done.
func c08JudgeSubtree(res *caseResult, e *actor.Engine, tree []*tnode, lg *tlog, top int, what string) {
	lg.mu.Lock()
	defer lg.mu.Unlock()
	var walk func(i int)
	walk = func(i int) {
		if lg.started[i] == 0 {
			return // never spawned (below a node that stopped itself first)
		}
		if len(lg.ends[i]) == 0 {
			res.violate("%s: the stop context is done but node %d (%s) has not handled Stopped", what, i, tree[i].id)
			return
		}
		if e.Registry.GetPID(idKind(tree[i].id)) != nil {
			res.violate("%s: the stop context is done but node %d (%s) is still registered", what, i, tree[i].id)
		}
		pb := lg.begins[i][len(lg.begins[i])-1]
		// the final Stopped (earlier ones belong to restarts, during which the children live on)
		if sr := lg.stillReg[i]; len(sr) > 0 && len(sr[len(sr)-1]) > 0 {
			res.violate("%s: %s", what, sr[len(sr)-1][0])
		}
		for _, k := range tree[i].kids {
			if lg.started[k] == 0 {
				continue
			}
			for _, ke := range lg.ends[k] {
				if ke > pb {
					res.violate("%s: parent %d began handling its final Stopped (seq %d) before its child %d had finished Stopped (seq %d)", what, i, pb, k, ke)
				}
			}
			walk(k)
		}
	}
	walk(top)
}

// c08Directed: the histories of the repaired findings, as ordinary cases.
func c08Directed(c *caseCtx) (res caseResult) {
	wd := watchdog(c.tier)
	e, mon, _, err := newMonitoredEngine()
	if err != nil {
		res.inconclusive("engine: %v", err)
		return
	}
	stoppedEvent := func(id string) bool {
		return mon.count(func(x any) bool { ev, ok := x.(actor.ActorStoppedEvent); return ok && ev.PID.ID == id }) > 0
	}
	lg := newTlog()
	switch c.n % 6 {
	case 5:
		c08Twins(c, e, &res)
	case 4:
		return c02Held(c, true)
	case 3:
		c08Supervisor(c, e, &res)
	case 2:
		c08Respawn(c, e, &res)
	case 0:
		// a third party poisons the child; while the child is inside Stopped (held) the parent is shut down
		tree := []*tnode{{idx: 0, parent: -1, id: "tree/0", kids: []int{1}}, {idx: 1, parent: 0, id: "tree/0/n/1", holdStop: true}}
		lg.holdGate = make(chan struct{})
		lg.holdEnter = make(chan struct{})
		root := e.Spawn(func() actor.Receiver { return &treeActor{n: tree[0], tree: tree, lg: lg} }, "tree", actor.WithID("0"))
		cctx := e.Poison(actor.NewPID("local", tree[1].id))
		select {
		case <-lg.holdEnter:
		case <-time.After(wd):
			res.inconclusive("child did not enter Stopped")
			return
		}
		pctx := e.Poison(root)
		time.Sleep(2 * time.Millisecond) // detection power only
		select {
		case <-pctx.Done():
			res.violate("the parent's stop context became done while its child was still inside Stopped")
		default:
		}
		close(lg.holdGate)
		for _, x := range []context.Context{cctx, pctx} {
			select {
			case <-x.Done():
			case <-time.After(wd):
				res.neverOrNotYet("a stop context did not become done after the child's Stopped handler was released")
				return
			}
		}
		c08JudgeSubtree(&res, e, tree, lg, 0, "parent shutdown while a third party had poisoned the child (child held inside Stopped)")
		res.Desc = "directed: third-party poison of the child, parent shutdown while the child is inside Stopped"
		res.Sig = sigHash("directed", 0)
	default:
		// children that stop themselves in Started, with delays injected at the child-map lock
		k := 1 + c.n%5
		tree := []*tnode{{idx: 0, parent: -1, id: "tree/0"}}
		for i := 1; i <= k; i++ {
			tree = append(tree, &tnode{idx: i, parent: 0, id: fmt.Sprintf("tree/0/n/%d", i), selfStop: i%2 == 1})
			tree[0].kids = append(tree[0].kids, i)
		}
		root := e.Spawn(func() actor.Receiver { return &treeActor{n: tree[0], tree: tree, lg: lg} }, "tree", actor.WithID("0"))
		for i := 1; i <= k; i++ {
			i := i
			if tree[i].selfStop {
				if !waitFor(wd, func() bool { return stoppedEvent(tree[i].id) }) {
					res.inconclusive("self-stopping child %d did not end", i)
					return
				}
			}
		}
		// ActorStoppedEvent follows the removal from the parent's map: the view must now be exact
		ids, got := queryChildren(e, root, wd)
		if !got {
			res.inconclusive("the parent did not answer the Children() query")
			return
		}
		ok := true
		for _, id := range ids {
			for i := 1; i <= k; i++ {
				if tree[i].selfStop && tree[i].id == id {
					ok = false
				}
			}
		}
		if !ok {
			res.violate("Children() of the parent still lists children that stopped themselves in Started: %v", ids)
		}
		want := 0
		for i := 1; i <= k; i++ {
			if !tree[i].selfStop {
				want++
			}
		}
		if ok && len(ids) != want {
			res.violate("Children() of the parent = %v, expected the %d children that are alive", ids, want)
		}
		e.Poison(root)
		res.Desc = fmt.Sprintf("directed: %d children, the odd ones stop themselves in Started", k)
		res.Sig = sigHash("directed", 1, k)
	}
	if c.n < 2 || res.Verdict == vViolated {
		res.Sample = map[string]any{"scenario": res.Desc}
	}
	return res
}

// c08Respawn: a child is stopped by a third party while its parent spawns the same
// child id again. Whatever the interleaving, afterwards the parent's Children()
// must agree with the registry: a live child is listed, a listed child is live.
type respawnParent struct {
	made int32
}

func (p *respawnParent) Receive(c *actor.Context) {
	switch m := c.Message().(type) {
	case c10Do:
		m.f(c)
	}
}

func c08Respawn(c *caseCtx, e *actor.Engine, res *caseResult) {
	wd := watchdog(c.tier)
	parent := e.Spawn(func() actor.Receiver { return &respawnParent{} }, "rp", actor.WithID("p"))
	do := func(f func(c *actor.Context)) bool {
		done := make(chan struct{})
		e.Send(parent, c10Do{f: func(c *actor.Context) { f(c); close(done) }})
		select {
		case <-done:
			return true
		case <-time.After(wd):
			return false
		}
	}
	var instStarted, instStopped int64
	spawnKid := func(c *actor.Context) {
		c.SpawnChild(func() actor.Receiver {
			return &funcRecv{f: func(c *actor.Context) {
				switch c.Message().(type) {
				case actor.Started:
					atomic.AddInt64(&instStarted, 1)
				case actor.Stopped:
					time.Sleep(100 * time.Microsecond) // a Stopped handler that takes its time
					atomic.AddInt64(&instStopped, 1)
				default:
					userPerturb()
				}
			}}
		}, "kid", actor.WithID("k"))
	}
	kid := actor.NewPID("local", "rp/p/kid/k")
	attempts := 40
	for i := 0; i < attempts && res.Verdict != vViolated; i++ {
		if !do(spawnKid) {
			res.inconclusive("parent did not answer")
			return
		}
		// third party stops the child; as soon as the registry has let go of it the parent spawns it again
		ctx := e.Poison(kid)
		respawned := make(chan struct{})
		eager := i%2 == 1
		startedBefore := atomic.LoadInt64(&instStarted)
		go func() {
			defer close(respawned)
			if eager {
				// the parent keeps trying while the old instance is still stopping: refused as duplicates until
				// the id is free, then one attempt goes through
				for k := 0; k < 400 && atomic.LoadInt64(&instStarted) == startedBefore; k++ {
					do(spawnKid)
				}
				if atomic.LoadInt64(&instStarted) != startedBefore {
					return
				}
			}
			waitFor(wd, func() bool { return e.Registry.GetPID("rp/p/kid", "k") == nil })
			do(spawnKid)
		}()
		select {
		case <-ctx.Done():
		case <-time.After(wd):
			res.inconclusive("child did not stop")
			return
		}
		select {
		case <-respawned:
		case <-time.After(wd):
			res.inconclusive("respawn did not finish")
			return
		}
		// both are over: compare the two views from inside the parent
		var listed, live bool
		if !do(func(c *actor.Context) {
			for _, k := range c.Children() {
				if k.ID == kid.ID {
					listed = true
				}
			}
			live = c.GetPID(kid.ID) != nil
		}) {
			res.inconclusive("parent did not answer")
			return
		}
		if listed != live {
			res.violate("attempt %d: after a third party stopped the child while the parent spawned its id again, Children() lists it: %v, but it is registered and alive: %v", i, listed, live)
		}
		res.count("respawn_races", 1)
		if live {
			select {
			case <-e.Poison(kid).Done():
			case <-time.After(wd):
				res.inconclusive("child did not stop")
				return
			}
		}
	}
	select {
	case <-e.Poison(parent).Done():
	case <-time.After(wd):
		res.inconclusive("parent did not stop")
		return
	}
	if st, sp := atomic.LoadInt64(&instStarted), atomic.LoadInt64(&instStopped); st != sp && res.Verdict != vViolated {
		res.violate("the parent has stopped: %d instances of its child were started over time, %d handled Stopped (an instance outlived its parent, unregistered and unreachable)", st, sp)
	}
	res.Desc = "directed: third party stops a child while the parent respawns the same id"
	res.Sig = sigHash("directed", 2, c.n%7)
}

// c08Supervisor: a supervisor replaces every worker that says goodbye (workers tell their parent
// from their Stopped handler). While the supervisor lives that is what it should do. Once it is
// being stopped, goodbyes that still reach it must not leave it with children nobody stops: every
// worker ever spawned has handled Stopped and is unregistered before the supervisor handles its own
// Stopped.
type supLog struct {
	mu       sync.Mutex
	spawned  []string
	stopEnd  map[string]int64 // worker id -> sequence number at the end of its Stopped handler
	supBegin int64
	supKids  []string
	next     int32
}

type supGoodbye struct{ From string }

type supWorker struct {
	lg   *supLog
	slow time.Duration
}

func (w *supWorker) Receive(c *actor.Context) {
	switch c.Message().(type) {
	case actor.Stopped:
		if w.slow > 0 {
			time.Sleep(w.slow)
		}
		c.Send(c.Parent(), supGoodbye{From: c.PID().ID})
		w.lg.mu.Lock()
		w.lg.stopEnd[c.PID().ID] = atomic.AddInt64(&treeSeq, 1)
		w.lg.mu.Unlock()
	}
}

type supActor struct {
	lg   *supLog
	fan  int
	slow time.Duration
}

func (s *supActor) spawn(c *actor.Context) {
	id := fmt.Sprint(atomic.AddInt32(&s.lg.next, 1))
	p := c.SpawnChild(func() actor.Receiver { return &supWorker{lg: s.lg, slow: s.slow} }, "w", actor.WithID(id))
	s.lg.mu.Lock()
	s.lg.spawned = append(s.lg.spawned, p.ID)
	s.lg.mu.Unlock()
}

func (s *supActor) Receive(c *actor.Context) {
	_ = c.Children() // a supervisor that looks at its children all the time
	switch c.Message().(type) {
	case actor.Started:
		for i := 0; i < s.fan; i++ {
			s.spawn(c)
		}
	case supGoodbye:
		s.spawn(c)
	case actor.Stopped:
		b := atomic.AddInt64(&treeSeq, 1)
		var kids []string
		for _, k := range c.Children() {
			kids = append(kids, k.ID)
		}
		s.lg.mu.Lock()
		s.lg.supBegin = b
		s.lg.supKids = kids
		s.lg.mu.Unlock()
	}
}

func c08Supervisor(c *caseCtx, e *actor.Engine, res *caseResult) {
	r := c.rng
	wd := watchdog(c.tier)
	lg := &supLog{stopEnd: map[string]int64{}}
	fan := pick(r, 1, 2, 8)
	slow := pick(r, 0, 0, 200*time.Microsecond)
	graceful := r.Intn(4) != 0
	sup := e.Spawn(func() actor.Receiver { return &supActor{lg: lg, fan: fan, slow: slow} }, "sup", actor.WithID("s"))
	res.Desc = fmt.Sprintf("directed: supervisor replaces workers that say goodbye, fan-out %d, then is stopped (graceful=%v)", fan, graceful)
	// while it lives, a worker stopped by a third party is replaced
	if r.Intn(2) == 0 {
		lg.mu.Lock()
		first := lg.spawned[0]
		lg.mu.Unlock()
		select {
		case <-e.Poison(actor.NewPID("local", first)).Done():
		case <-time.After(wd):
			res.inconclusive("worker did not stop")
			return
		}
		if !waitFor(wd, func() bool { lg.mu.Lock(); defer lg.mu.Unlock(); return len(lg.spawned) == fan+1 }) {
			res.inconclusive("the supervisor did not replace the worker")
			return
		}
	}
	var ctx context.Context
	if graceful {
		ctx = e.Poison(sup)
	} else {
		ctx = e.Stop(sup)
	}
	select {
	case <-ctx.Done():
	case <-time.After(wd):
		if rest, where := atRest(3 * time.Second); rest {
			res.violate("the supervisor's stop context never became done and the process is at rest (%s)", where)
		} else {
			res.inconclusive("supervisor did not stop (%s)", where)
		}
		return
	}
	lg.mu.Lock()
	defer lg.mu.Unlock()
	if len(lg.supKids) > 0 {
		res.violate("the supervisor handled Stopped while Children() still listed %v", lg.supKids)
	}
	for _, id := range lg.spawned {
		end, ok := lg.stopEnd[id]
		switch {
		case !ok:
			res.violate("the supervisor's stop context is done, but its child %s (spawned while it handled a worker's goodbye) never handled Stopped", id)
		case end > lg.supBegin:
			res.violate("child %s finished Stopped after the supervisor began its own", id)
		}
		if k, i := idKind(id); e.Registry.GetPID(k, i) != nil {
			res.violate("the supervisor's stop context is done, but its child %s is still registered", id)
		}
	}
	res.count("supervised_workers", int64(len(lg.spawned)))
	res.Sig = sigHash("directed", 3, fan, graceful, slow > 0)
}

// c08Twins: one parent, children under different names that carry the same id (reader/<conn> and
// writer/<conn>): they are different actors. Children() lists all of them, one that stops on its own
// takes nobody else out of the list, and stopping the parent stops them all.
func c08Twins(c *caseCtx, e *actor.Engine, res *caseResult) {
	r := c.rng
	wd := watchdog(c.tier)
	names := []string{"reader", "writer", "pinger"}[:2+r.Intn(2)]
	conns := 1 + r.Intn(3)
	var stoppedSeq sync.Map // child id -> seq at end of Stopped
	var parentBegin int64
	var parentKids atomic.Value
	mk := func() actor.Receiver {
		return &funcRecv{f: func(c *actor.Context) {
			if _, ok := c.Message().(actor.Stopped); ok {
				stoppedSeq.Store(c.PID().ID, atomic.AddInt64(&treeSeq, 1))
			}
		}}
	}
	parent := e.Spawn(func() actor.Receiver {
		return &funcRecv{f: func(c *actor.Context) {
			switch m := c.Message().(type) {
			case actor.Started:
				for _, nme := range names {
					for k := 0; k < conns; k++ {
						c.SpawnChild(mk, nme, actor.WithID(fmt.Sprintf("conn%d", k)))
					}
				}
			case tQuery:
				var ids []string
				for _, p := range c.Children() {
					ids = append(ids, p.ID)
				}
				sort.Strings(ids)
				m.reply <- ids
			case actor.Stopped:
				atomic.StoreInt64(&parentBegin, atomic.AddInt64(&treeSeq, 1))
				var ids []string
				for _, p := range c.Children() {
					ids = append(ids, p.ID)
				}
				parentKids.Store(ids)
			}
		}}
	}, "tw", actor.WithID("p"))
	var all []string
	for _, nme := range names {
		for k := 0; k < conns; k++ {
			all = append(all, fmt.Sprintf("tw/p/%s/conn%d", nme, k))
		}
	}
	sort.Strings(all)
	res.Desc = fmt.Sprintf("directed: %d children of one parent under %d names sharing %d ids", len(all), len(names), conns)
	ids, ok := queryChildren(e, parent, wd)
	if !ok {
		res.inconclusive("parent did not answer")
		return
	}
	if strings.Join(ids, ",") != strings.Join(all, ",") {
		res.violate("Children() = %v, the parent spawned %v (children under different names that carry the same id are different actors)", ids, all)
	}
	// one of them stops on its own
	gone := all[r.Intn(len(all))]
	select {
	case <-e.Poison(actor.NewPID("local", gone)).Done():
	case <-time.After(wd):
		res.inconclusive("child did not stop")
		return
	}
	var rest []string
	for _, id := range all {
		if id != gone {
			rest = append(rest, id)
		}
	}
	ids, ok = queryChildren(e, parent, wd)
	if !ok {
		res.inconclusive("parent did not answer")
		return
	}
	if strings.Join(ids, ",") != strings.Join(rest, ",") {
		res.violate("after %s stopped on its own Children() = %v, alive are %v", gone, ids, rest)
	}
	select {
	case <-e.Poison(parent).Done():
	case <-time.After(wd):
		res.inconclusive("parent did not stop")
		return
	}
	if k, _ := parentKids.Load().([]string); len(k) > 0 {
		res.violate("the parent handled Stopped while Children() still listed %v", k)
	}
	for _, id := range rest {
		v, ok := stoppedSeq.Load(id)
		if !ok {
			res.violate("the parent's stop context is done, but its child %s never handled Stopped", id)
		} else if v.(int64) > atomic.LoadInt64(&parentBegin) {
			res.violate("child %s finished Stopped after the parent began its own", id)
		}
		if kk, ii := idKind(id); e.Registry.GetPID(kk, ii) != nil {
			res.violate("the parent's stop context is done, but its child %s is still registered", id)
		}
	}
	res.Sig = sigHash("directed", 5, len(names), conns)
}

type funcRecv struct{ f func(*actor.Context) }

func (r *funcRecv) Receive(c *actor.Context) { r.f(c) }
