package main

// C17 — remote sends arrive once and in order; unreachable peers are reported;
// a later send makes a fresh attempt; Stop closes the listener; Start/Stop twice
// are harmless. Real engines and real remotes over loopback TCP, public API
// only, each child process in its own network namespace.
//
// Phases of one case: up (concurrent senders, request/response across engines)
// -> peer stopped while senders keep running -> down (burst of k sends: one
// RemoteUnreachableEvent at least, exactly k dead letters for stream/<addr>)
// -> a new node listens on the same address -> up again (probe and ordered
// traffic must get through) -> optionally a second down/up round.

import (
	"crypto/tls"
	"fmt"
	"net"
	"strings"
	"sync"
	"sync/atomic"
	"time"

	"github.com/anthdm/hollywood/actor"
	"github.com/anthdm/hollywood/remote"
)

func init() {
	// applications register their message types for the vtproto fast path, as the library's documentation asks
	remote.RegisterType(&remote.TestMessage{})
	register(&prop{
		id:    "C17",
		level: "exploration",
		rule: "PRNG scenarios over real loopback TCP: 1-8 sender goroutines x 1-6 target actors x message counts, cross-engine request/response, then 1-2 rounds of peer-down / peer-up with senders kept running across the peer's death and delays injected at the registry's lock operations; " +
			"oracle in up phases: exactly-once, per-(sender,target) order, sender PID fidelity, replies correlated; in down phases (after RemoteUnreachableEvent has been observed): a burst of k sends yields exactly k DeadLetterEvents for stream/<addr> and a further RemoteUnreachableEvent; after the peer is back a fresh send is delivered; after Stop().Wait() a TCP dial fails; second Start errors, second Stop returns; tcp-react: 1-100 event-stream subscribers re-send on the RemoteUnreachableEvent while the peer is already back up - every such send is a later send and must arrive. Distinct by (senders, targets, rounds, burst size) / (subscribers, inline ones)",
		assumptions: []string{
			"messages in flight while a connection dies are not judged (the statement covers sends 'while the connection stays up' and sends handed to a failed attempt)",
			"each failed connection attempt costs about 3 s of real time (three dials with 0+1+2 s pauses in the code under test), so the number of down phases per run is small",
			"phase boundaries are logical: a round-tripped probe opens an up phase, the observed RemoteUnreachableEvent opens a down phase; waiting is bounded by a watchdog whose expiry is inconclusive",
		},
		modes: func(tier string, seed int64) []modeSpec {
			n := 16
			if tier == "thorough" {
				n = 160
			}
			return []modeSpec{
				{name: "tcp", n: n, perChild: 1, parallel: 16, netns: true, timeout: 10 * time.Minute},
				{name: "tcp-tls", n: n / 2, perChild: 1, parallel: 16, netns: true, timeout: 10 * time.Minute},
				{name: "tcp-chaos", n: n, perChild: 1, parallel: 16, netns: true, timeout: 10 * time.Minute, env: []string{"VERIF_HOOK=chaos", "VERIF_HOOK_PROB=30", "VERIF_HOOK_MAXUS=100", "VERIF_HOOK_LOCKUS=3000"}},
				{name: "tcp-react", n: n, perChild: 2, parallel: 16, netns: true, timeout: 10 * time.Minute},
			}
		},
		run: func(c *caseCtx) caseResult {
			if c.mode == "tcp-react" {
				return c17React(c)
			}
			return c17Run(c)
		},
		minDistinct: 8,
	})
}

type netRecv struct {
	mu  sync.Mutex
	got []netGot
}
type netGot struct {
	msg    *remote.TestMessage // kept as delivered: what it says is read when the phase is judged
	sender string
}

func (g netGot) data() string { return string(g.msg.Data) }

func (a *netRecv) Receive(c *actor.Context) {
	if m, ok := c.Message().(*remote.TestMessage); ok {
		d := string(m.Data)
		if strings.HasPrefix(d, "req-") {
			c.Respond(&remote.TestMessage{Data: []byte("rep-" + d[4:])})
			return
		}
		if strings.HasPrefix(d, "slowreq-") {
			// answered, but late (400 ms): the requester has given up by then
			sp, eng := c.Sender(), c.Engine()
			go func() {
				time.Sleep(400 * time.Millisecond)
				eng.Send(sp, &remote.TestMessage{Data: []byte("rep-" + d)})
			}()
			return
		}
		a.mu.Lock()
		a.got = append(a.got, netGot{msg: m, sender: pidStr(c.Sender())})
		a.mu.Unlock()
		if sp := c.Sender(); sp != nil && strings.HasPrefix(sp.ID, "response/") {
			// like many actors this one answers whoever asks: a message that is no request but shows up
			// with a requester's response PID as its sender gets an answer too (and that requester the wrong reply)
			c.Respond(&remote.TestMessage{Data: []byte("rep-" + d)})
		}
	}
}

func (a *netRecv) snapshot() []netGot {
	a.mu.Lock()
	defer a.mu.Unlock()
	return append([]netGot(nil), a.got...)
}

type c17Node struct {
	eng   *actor.Engine
	rem   *remote.Remote
	mon   *eventMonitor
	recvs []*netRecv
	pids  []*actor.PID
}

func c17StartNode(addr string, nTargets int, tc *tls.Config) (*c17Node, error) {
	nd := &c17Node{}
	cfg := remote.NewConfig()
	if tc != nil {
		cfg = cfg.WithTLS(tc)
	}
	nd.rem = remote.New(addr, cfg)
	e, err := actor.NewEngine(actor.NewEngineConfig().WithRemote(nd.rem))
	if err != nil {
		return nil, err
	}
	nd.eng = e
	nd.mon = &eventMonitor{}
	mp := e.Spawn(func() actor.Receiver { return nd.mon }, "verifmonitor", actor.WithID("0"))
	e.Subscribe(mp)
	if !nd.mon.flush(e, 20*time.Second) {
		return nil, fmt.Errorf("monitor subscription not confirmed")
	}
	for i := 0; i < nTargets; i++ {
		rc := &netRecv{}
		nd.recvs = append(nd.recvs, rc)
		nd.pids = append(nd.pids, e.Spawn(func() actor.Receiver { return rc }, "t", actor.WithID(fmt.Sprint(i))))
	}
	return nd, nil
}

func unreachableCount(m *eventMonitor, addr string) int {
	return m.count(func(x any) bool { ev, ok := x.(actor.RemoteUnreachableEvent); return ok && ev.ListenAddr == addr })
}

func streamDeadLetters(m *eventMonitor, addr string) int {
	return m.count(func(x any) bool {
		ev, ok := x.(actor.DeadLetterEvent)
		return ok && ev.Target != nil && ev.Target.ID == "stream/"+addr
	})
}

func c17Run(c *caseCtx) (res caseResult) {
	r := c.rng
	wd := watchdog(c.tier)
	addrs := freeAddrs(c, 2)
	a1, a2 := addrs[0], addrs[1]
	nT := 1 + r.Intn(6)
	nS := 1 + r.Intn(8)
	per := 5 + r.Intn(60)
	rounds := 1 + r.Intn(2)
	burst := 1 + r.Intn(8)
	res.Desc = fmt.Sprintf(c.mode+" senders=%d targets=%d per=%d down/up rounds=%d burst=%d", nS, nT, per, rounds, burst)
	var tls1, tls2, tls3 *tls.Config
	if c.mode == "tcp-tls" {
		// mutually verifying certificates from a private CA: node 1 is known under both names, node 2 only as
		// 127.0.0.1, node 3 only as "localhost"
		var terr error
		tls1, tls2, tls3, terr = namedTLS()
		if terr != nil {
			res.inconclusive("cannot create TLS configurations: %v", terr)
			return
		}
	}
	n1, err := c17StartNode(a1, 1, tls1)
	if err != nil {
		res.inconclusive("node 1: %v", err)
		return
	}
	n2, err := c17StartNode(a2, nT, tls2)
	if err != nil {
		res.inconclusive("node 2: %v", err)
		return
	}
	target := func(i int) *actor.PID { return actor.NewPID(a2, fmt.Sprintf("t/%d", i)) }
	// Start twice is harmless
	if err := n1.rem.Start(n1.eng); err == nil {
		res.violate("a second Remote.Start returned no error")
	}
	gen := 0 // message generation: distinguishes phases
	upPhase := func(phase string, node2 *c17Node) bool {
		gen++
		g := gen
		// a probe round trip opens the phase
		probe := fmt.Sprintf("probe-%d", g)
		n1.eng.Send(target(0), &remote.TestMessage{Data: []byte(probe)})
		if !waitFor(wd, func() bool {
			for _, x := range node2.recvs[0].snapshot() {
				if x.data() == probe {
					return true
				}
			}
			return false
		}) {
			res.violate("%s: a message sent after the peer is up (and after the previous failure had been reported) was never delivered: the address stays unreachable", phase)
			return false
		}
		var wg sync.WaitGroup
		senders := make([]*actor.PID, nS)
		for s := 0; s < nS; s++ {
			s := s
			if s%3 == 1 {
				senders[s] = actor.NewPID(a1, fmt.Sprintf("sender/%d", s))
			} else if s%3 == 2 {
				// a forwarded sender: an actor of a third node that carries the very id of sender s-1 (a gateway
				// relaying for clients that name their actors alike); it is never answered, so nobody dials it
				senders[s] = actor.NewPID(fmt.Sprintf("client-%d.invalid:4000", s), fmt.Sprintf("sender/%d", s-1))
			}
			wg.Add(1)
			go func() {
				defer wg.Done()
				for i := 0; i < per; i++ {
					t := (s + i) % nT
					n1.eng.SendWithSender(target(t), &remote.TestMessage{Data: []byte(fmt.Sprintf("g%d-s%d-%d", g, s, i))}, senders[s])
				}
			}()
		}
		// one sender bursts: the stream writer then takes batches far beyond its nominal batch size
		burstN := 4000 + r.Intn(8000)
		burstSender := actor.NewPID(a1, "sender/burst")
		burstSender2 := actor.NewPID("client-burst.invalid:4000", "sender/burst")
		wg.Add(1)
		go func() {
			defer wg.Done()
			for i := 0; i < burstN; i++ {
				var sp *actor.PID
				switch i % 4 {
				case 0:
					sp = burstSender
				case 2:
					sp = burstSender2 // same id, other address
				}
				n1.eng.SendWithSender(target(i%nT), &remote.TestMessage{Data: []byte(fmt.Sprintf("g%d-b%d-%d", g, i%4, i))}, sp)
			}
		}()
		// request/response across the engines
		nReq := 1 + r.Intn(6)
		reqErr := make([]string, nReq)
		for q := 0; q < nReq; q++ {
			q := q
			wg.Add(1)
			go func() {
				defer wg.Done()
				id := fmt.Sprintf("%d-%d", g, q)
				v, err := n1.eng.Request(target(q%nT), &remote.TestMessage{Data: []byte("req-" + id)}, wd).Result()
				if err != nil {
					reqErr[q] = "timeout"
					return
				}
				m, ok := v.(*remote.TestMessage)
				if !ok || string(m.Data) != "rep-"+id {
					reqErr[q] = fmt.Sprintf("request %s got %v", id, v)
				}
			}()
		}
		wg.Wait()
		for _, e := range reqErr {
			if e == "timeout" {
				res.inconclusive("%s: a cross-engine request was not answered within the watchdog", phase)
				return false
			} else if e != "" {
				res.violate("%s: %s (reply did not reach its requester)", phase, e)
			}
		}
		// final markers, one per target, sent after all senders returned
		for t := 0; t < nT; t++ {
			n1.eng.Send(target(t), &remote.TestMessage{Data: []byte(fmt.Sprintf("fin-%d", g))})
		}
		for t := 0; t < nT; t++ {
			t := t
			if !waitFor(wd, func() bool {
				for _, x := range node2.recvs[t].snapshot() {
					if x.data() == fmt.Sprintf("fin-%d", g) {
						return true
					}
				}
				return false
			}) {
				res.inconclusive("%s: final marker for target %d did not arrive", phase, t)
				return false
			}
		}
		// judge this generation
		prefix := fmt.Sprintf("g%d-", g)
		total := 0
		burstGot := 0
		lastBurst := make([]int, nT)
		for t := 0; t < nT; t++ {
			last := map[int]int{}
			seen := map[string]int{}
			for _, x := range node2.recvs[t].snapshot() {
				if !strings.HasPrefix(x.data(), prefix) {
					continue
				}
				var s, i int
				if strings.HasPrefix(x.data()[len(prefix):], "b") {
					var kind int
					fmt.Sscanf(x.data()[len(prefix):], "b%d-%d", &kind, &i)
					seen[x.data()]++
					burstGot++
					if seen[x.data()] > 1 {
						res.violate("%s: burst message %s delivered %d times", phase, x.data(), seen[x.data()])
					}
					if i%nT != t {
						res.violate("%s: burst message %s arrived at target %d", phase, x.data(), t)
					}
					if i < lastBurst[t] {
						res.violate("%s: target %d received burst message %d after %d (order)", phase, t, i, lastBurst[t])
					}
					lastBurst[t] = i
					want := ""
					if kind == 0 {
						want = pidStr(burstSender)
					} else if kind == 2 {
						want = pidStr(burstSender2)
					}
					if x.sender != want {
						res.violate("%s: burst message %s arrived with sender %q, sent with %q", phase, x.data(), x.sender, want)
					}
					continue
				}
				fmt.Sscanf(x.data()[len(prefix):], "s%d-%d", &s, &i)
				seen[x.data()]++
				total++
				if seen[x.data()] > 1 {
					res.violate("%s: message %s delivered %d times", phase, x.data(), seen[x.data()])
				}
				if (s+i)%nT != t {
					res.violate("%s: message %s arrived at target %d", phase, x.data(), t)
				}
				if l, ok := last[s]; ok && i < l {
					res.violate("%s: target %d received %s after message %d of the same sender (order)", phase, t, x.data(), l)
				}
				last[s] = i
				if x.sender != pidStr(senders[s]) {
					res.violate("%s: message %s arrived with sender %q, sent with %q", phase, x.data(), x.sender, pidStr(senders[s]))
				}
			}
		}
		if total != nS*per {
			res.violate("%s: %d of %d messages delivered although the connection stayed up and the final markers (sent after them) arrived", phase, total, nS*per)
		}
		if burstGot != burstN {
			res.violate("%s: %d of %d burst messages delivered although the connection stayed up and the final markers arrived", phase, burstGot, burstN)
		}
		res.count("messages_delivered_up", int64(total+burstGot))
		res.count("cross_engine_requests", int64(nReq))
		return res.Verdict != vViolated
	}
	if !upPhase("first up phase", n2) {
		return
	}
	if tls3 != nil {
		// a second peer, reachable under another host name: every peer address gets its own connection
		a3 := "localhost:" + strings.Split(freeAddrs(c, 3)[2], ":")[1]
		n3, err := c17StartNode(a3, 1, tls3)
		if err != nil {
			res.inconclusive("node 3: %v", err)
			return
		}
		for i := 0; i < 20; i++ {
			n1.eng.Send(actor.NewPID(a3, "t/0"), &remote.TestMessage{Data: []byte(fmt.Sprintf("third-%d", i))})
		}
		if !waitFor(wd, func() bool { return len(n3.recvs[0].snapshot()) >= 20 }) {
			res.violate("messages to a second TLS peer (%s, reachable and with a valid certificate for that name) were not delivered: %d of 20 arrived, %d RemoteUnreachableEvents for it", a3, len(n3.recvs[0].snapshot()), unreachableCount(n1.mon, a3))
		}
		for i, x := range n3.recvs[0].snapshot() {
			if i < 20 && x.data() != fmt.Sprintf("third-%d", i) {
				res.violate("second TLS peer: delivery %d is %q", i, x.data())
				break
			}
		}
		res.count("second_tls_peer_cases", 1)
		n3.rem.Stop()
	}
	cur := n2
	for round := 0; round < rounds; round++ {
		// senders keep running across the peer's death
		stopBg := make(chan struct{})
		var bg sync.WaitGroup
		var bgSent int64
		for s := 0; s < 2; s++ {
			bg.Add(1)
			go func() {
				defer bg.Done()
				for {
					select {
					case <-stopBg:
						return
					default:
					}
					n1.eng.Send(target(0), &remote.TestMessage{Data: []byte("bg")})
					atomic.AddInt64(&bgSent, 1)
					time.Sleep(200 * time.Microsecond)
				}
			}()
		}
		before := unreachableCount(n1.mon, a2)
		wgStop := cur.rem.Stop()
		waitDone := make(chan struct{})
		go func() { wgStop.Wait(); close(waitDone) }()
		select {
		case <-waitDone:
		case <-time.After(wd):
			close(stopBg)
			res.inconclusive("Remote.Stop().Wait() did not return")
			return
		}
		// Stop twice is harmless
		second := make(chan struct{})
		go func() { cur.rem.Stop().Wait(); close(second) }()
		select {
		case <-second:
		case <-time.After(wd):
			close(stopBg)
			res.violate("a second Remote.Stop().Wait() did not return")
			return
		}
		if conn, err := net.DialTimeout("tcp", a2, 2*time.Second); err == nil { // (a plain TCP connect: refused whatever the transport on top)
			conn.Close()
			res.violate("after Remote.Stop().Wait() the node still accepts inbound connections on %s", a2)
		}
		// one more Start on the stopped remote: if it is refused (it is today), the node stays closed
		if err := cur.rem.Start(cur.eng); err != nil {
			if conn, err := net.DialTimeout("tcp", a2, 2*time.Second); err == nil {
				conn.Close()
				res.violate("Remote.Start on a stopped remote was refused, yet afterwards the node accepts inbound connections on %s again (nobody serves them)", a2)
			}
		} else {
			res.count("restartable_remote", 1)
			cur.rem.Stop().Wait()
		}
		// the loss of the peer is reported
		if !waitFor(wd, func() bool { return unreachableCount(n1.mon, a2) > before }) {
			close(stopBg)
			res.violate("round %d: the peer is gone (listener closed, connection dropped) and senders keep sending, but no RemoteUnreachableEvent was published", round)
			return
		}
		close(stopBg)
		bg.Wait()
		n1.mon.flush(n1.eng, wd)
		// down phase proper: a burst of k sends to the dead address
		// (messages of the background senders may still be queued in front of the burst; the dead letters are
		// therefore matched by content: the event carries the undelivered message, whose printed form shows the payload)
		burstDL := func(i int) int {
			tag := fmt.Sprintf("down-%d-%d", round, i)
			return n1.mon.count(func(x any) bool {
				ev, ok := x.(actor.DeadLetterEvent)
				if !ok {
					return false
				}
				// whichever PID the dead letter names (today: the stream writer's), it carries the undelivered message
				msg := ev.Message
				if d, ok := unwrapDeliver(msg); ok {
					msg = d.Msg
				}
				tm, ok := msg.(*remote.TestMessage)
				return ok && string(tm.Data) == tag
			})
		}
		if !exportAvailable {
			// without the export shim the undelivered payload cannot be inspected: count instead, after the
			// attempts caused by the background senders have had ample time to finish
			time.Sleep(10 * time.Second)
			n1.mon.flush(n1.eng, wd)
			base := streamDeadLetters(n1.mon, a2)
			burstDL = func(i int) int {
				if streamDeadLetters(n1.mon, a2)-base >= burst {
					return 1
				}
				return 0
			}
		}
		un0 := unreachableCount(n1.mon, a2)
		for i := 0; i < burst; i++ {
			n1.eng.Send(target(i%nT), &remote.TestMessage{Data: []byte(fmt.Sprintf("down-%d-%d", round, i))})
		}
		if !waitFor(wd, func() bool { return unreachableCount(n1.mon, a2) > un0 }) {
			res.violate("round %d: %d messages sent to an unreachable peer and no RemoteUnreachableEvent followed", round, burst)
			return
		}
		allThere := func() bool {
			for i := 0; i < burst; i++ {
				if burstDL(i) < 1 {
					return false
				}
			}
			return true
		}
		if !waitFor(wd, allThere) {
			missing := 0
			for i := 0; i < burst; i++ {
				if burstDL(i) < 1 {
					missing++
				}
			}
			res.violate("round %d: %d messages handed to a failed connection attempt, %d of them never surfaced as a DeadLetterEvent for stream/%s", round, burst, missing, a2)
			return
		}
		n1.mon.flush(n1.eng, wd)
		for i := 0; i < burst; i++ {
			if d := burstDL(i); d != 1 {
				res.violate("round %d: message %d handed to a failed connection attempt produced %d DeadLetterEvents for stream/%s, expected exactly 1", round, i, d, a2)
			}
		}
		res.count("down_phases", 1)
		res.count("dead_letters_down", int64(burst))
		// the peer comes back on the same address
		nn, err := c17StartNode(a2, nT, tls2)
		if err != nil {
			res.inconclusive("restarting the peer: %v", err)
			return
		}
		cur = nn
		if !upPhase(fmt.Sprintf("up phase after down round %d", round), nn) {
			return
		}
	}
	res.Sig = sigHash(c.mode, nS, nT, rounds, burst)
	if c.n < 2 || res.Verdict == vViolated {
		res.Sample = map[string]any{"scenario": res.Desc, "unreachable_events": unreachableCount(n1.mon, a2), "stream_dead_letters": streamDeadLetters(n1.mon, a2)}
	}
	n1.rem.Stop().Wait()
	cur.rem.Stop().Wait()
	return res
}
