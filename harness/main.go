// vh — the verification harness for anthdm/hollywood (runtime monitoring).
//
//	vh run   -id C07 -tier quick -seed 1 -work <dir> [-race-bin <path>]   parent: plans cases, runs children, aggregates, writes evidence
//	vh child -id C07 -tier quick -seed 1 -cases 0,16,32,...                child: runs the cases, one JSON line per case on stdout
//	vh replay -id C07 -file <replay.json>                                  re-runs the case(s) recorded in a replay file
package main

import (
	"flag"
	"fmt"
	"os"
)

func main() {
	if len(os.Args) < 2 {
		fmt.Fprintln(os.Stderr, "usage: vh run|child|replay ...")
		os.Exit(2)
	}
	cmd := os.Args[1]
	fs := flag.NewFlagSet(cmd, flag.ExitOnError)
	var (
		id      = fs.String("id", "", "property id")
		tier    = fs.String("tier", "quick", "quick|thorough")
		seed    = fs.Int64("seed", 1, "PRNG seed")
		work    = fs.String("work", "", "scratch directory")
		raceBin = fs.String("race-bin", "", "path of the -race build of vh")
		cases   = fs.String("cases", "", "child: comma separated case numbers")
		file    = fs.String("file", "", "replay: replay file")
		verifD  = fs.String("verif", "/verif", "verif directory (evidence, replays, known findings)")
		repoD   = fs.String("repo", "/repo", "repository under test (informational)")
		mode    = fs.String("mode", "", "child: workload mode (property specific)")
	)
	_ = fs.Parse(os.Args[2:])
	switch cmd {
	case "run":
		os.Exit(runParent(*id, *tier, *seed, *work, *raceBin, *verifD, *repoD, ""))
	case "child":
		os.Exit(runChild(*id, *tier, *seed, *cases, *mode))
	case "replay":
		os.Exit(runParent(*id, *tier, *seed, *work, *raceBin, *verifD, *repoD, *file))
	default:
		fmt.Fprintln(os.Stderr, "unknown command", cmd)
		os.Exit(2)
	}
}
