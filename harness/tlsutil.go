package main

import (
	"crypto/ecdsa"
	"crypto/elliptic"
	"crypto/rand"
	"crypto/tls"
	"crypto/x509"
	"crypto/x509/pkix"
	"math/big"
	"net"
	"sync"
	"time"
)

var (
	tlsOnce sync.Once
	tlsCfg  *tls.Config
)

// harnessTLS returns a TLS config with a throw-away self-signed certificate for
// 127.0.0.1, usable for listening and for dialling (peers are not verified: the
// transport, not the PKI, is what the scenario exercises).
func harnessTLS() *tls.Config {
	tlsOnce.Do(func() {
		key, err := ecdsa.GenerateKey(elliptic.P256(), rand.Reader)
		if err != nil {
			return
		}
		tmpl := &x509.Certificate{
			SerialNumber: big.NewInt(1),
			Subject:      pkix.Name{CommonName: "verif"},
			NotBefore:    time.Now().Add(-time.Hour),
			NotAfter:     time.Now().Add(24 * time.Hour),
			KeyUsage:     x509.KeyUsageDigitalSignature | x509.KeyUsageKeyEncipherment,
			ExtKeyUsage:  []x509.ExtKeyUsage{x509.ExtKeyUsageServerAuth, x509.ExtKeyUsageClientAuth},
			IPAddresses:  []net.IP{net.ParseIP("127.0.0.1")},
		}
		der, err := x509.CreateCertificate(rand.Reader, tmpl, tmpl, &key.PublicKey, key)
		if err != nil {
			return
		}
		tlsCfg = &tls.Config{
			Certificates:       []tls.Certificate{{Certificate: [][]byte{der}, PrivateKey: key}},
			InsecureSkipVerify: true,
		}
	})
	return tlsCfg
}
