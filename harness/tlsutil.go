package main

import (
	"crypto/ecdsa"
	"crypto/elliptic"
	"crypto/rand"
	"crypto/tls"
	"crypto/x509"
	"crypto/x509/pkix"
	"math/big"
	"net"
	"sync"
	"time"
)

var (
	tlsOnce sync.Once
	tlsCfg  *tls.Config
)

// harnessTLS returns a TLS config with a throw-away self-signed certificate for
// 127.0.0.1, usable for listening and for dialling (peers are not verified: the
// transport, not the PKI, is what the scenario exercises).
func harnessTLS() *tls.Config {
	tlsOnce.Do(func() {
		key, err := ecdsa.GenerateKey(elliptic.P256(), rand.Reader)
		if err != nil {
			return
		}
		tmpl := &x509.Certificate{
			SerialNumber: big.NewInt(1),
			Subject:      pkix.Name{CommonName: "verif"},
			NotBefore:    time.Now().Add(-time.Hour),
			NotAfter:     time.Now().Add(24 * time.Hour),
			KeyUsage:     x509.KeyUsageDigitalSignature | x509.KeyUsageKeyEncipherment,
			ExtKeyUsage:  []x509.ExtKeyUsage{x509.ExtKeyUsageServerAuth, x509.ExtKeyUsageClientAuth},
			IPAddresses:  []net.IP{net.ParseIP("127.0.0.1")},
		}
		der, err := x509.CreateCertificate(rand.Reader, tmpl, tmpl, &key.PublicKey, key)
		if err != nil {
			return
		}
		tlsCfg = &tls.Config{
			Certificates:       []tls.Certificate{{Certificate: [][]byte{der}, PrivateKey: key}},
			InsecureSkipVerify: true,
		}
	})
	return tlsCfg
}

// namedTLS builds a private CA and three mutually verifying configurations: one
// whose certificate covers both "localhost" and 127.0.0.1, one for 127.0.0.1 only,
// one for "localhost" only. No ServerName is set: the dialler derives it from the
// address, as the library's users do.
func namedTLS() (both, ipOnly, dnsOnly *tls.Config, err error) {
	caKey, err := ecdsa.GenerateKey(elliptic.P256(), rand.Reader)
	if err != nil {
		return
	}
	caT := &x509.Certificate{SerialNumber: big.NewInt(10), Subject: pkix.Name{CommonName: "verif-ca"}, NotBefore: time.Now().Add(-time.Hour), NotAfter: time.Now().Add(24 * time.Hour),
		IsCA: true, KeyUsage: x509.KeyUsageCertSign | x509.KeyUsageDigitalSignature, BasicConstraintsValid: true}
	caDER, err := x509.CreateCertificate(rand.Reader, caT, caT, &caKey.PublicKey, caKey)
	if err != nil {
		return
	}
	caCert, err := x509.ParseCertificate(caDER)
	if err != nil {
		return
	}
	pool := x509.NewCertPool()
	pool.AddCert(caCert)
	mk := func(serial int64, dns []string, ips []net.IP) (*tls.Config, error) {
		key, err := ecdsa.GenerateKey(elliptic.P256(), rand.Reader)
		if err != nil {
			return nil, err
		}
		t := &x509.Certificate{SerialNumber: big.NewInt(serial), Subject: pkix.Name{CommonName: "verif-node"}, NotBefore: time.Now().Add(-time.Hour), NotAfter: time.Now().Add(24 * time.Hour),
			KeyUsage: x509.KeyUsageDigitalSignature, ExtKeyUsage: []x509.ExtKeyUsage{x509.ExtKeyUsageServerAuth, x509.ExtKeyUsageClientAuth}, DNSNames: dns, IPAddresses: ips}
		der, err := x509.CreateCertificate(rand.Reader, t, caCert, &key.PublicKey, caKey)
		if err != nil {
			return nil, err
		}
		return &tls.Config{Certificates: []tls.Certificate{{Certificate: [][]byte{der}, PrivateKey: key}}, RootCAs: pool, ClientCAs: pool, ClientAuth: tls.RequireAndVerifyClientCert}, nil
	}
	ip := []net.IP{net.ParseIP("127.0.0.1")}
	if both, err = mk(11, []string{"localhost"}, ip); err != nil {
		return
	}
	if ipOnly, err = mk(12, nil, ip); err != nil {
		return
	}
	dnsOnly, err = mk(13, []string{"localhost"}, nil)
	return
}
