package main

// C01 — local delivery is exactly-once, content-faithful and order-preserving.
//
//   raw     real actor.Inbox (overlaid with the yielding shims) + a recording
//           Processer: sizes 1..9,63,64,65,1024, 1-8 senders, Start before / among /
//           after the sends
//   engine  real engine actors (-race build): WithInboxSize, 1-16 sender goroutines,
//           a gate that lets a backlog of a chosen geometry form (0, 1, cap-1, cap,
//           2cap+1, 4095, 4096, 4097, 10000), baton chains across goroutines,
//           actor-to-actor sends from inside Receive
//
// Oracle (offline, over the send log and the receive log): multiset equality by
// unique id, same message object, sender as given (nil included), per-sender
// order, baton order. Quiescence is a final marker sent after all senders have
// returned: when it is received everything sent before must have been received.

import (
	"fmt"
	"runtime"
	"strings"
	"sync"
	"sync/atomic"
	"time"

	"github.com/anthdm/hollywood/actor"
)

func init() {
	register(&prop{
		id:    "C01",
		level: "exploration",
		rule: "PRNG scenarios over (inbox size, number of senders, messages per sender, backlog geometry formed behind a gate, baton chains, actor-to-actor sends); every message carries a unique id; a case is non-trivial if the backlog made the ring grow or a batch split at 4096, or >=2 senders interleaved; " +
			"distinct by (mode, inbox size, senders, backlog class, growths, batches seen by the recording Processer / max backlog)",
		assumptions: []string{
			"messages to a stopping actor are excluded here (C07); a third of the engine scenarios interleave messages the actor crashes on: everything else is still owed to the restarted actor exactly once and in order",
			"'any number of senders' is sampled up to 16, inbox sizes up to 1024, backlogs up to 10000",
			"the final marker is sent after all sender goroutines have been joined, so its receipt proves (by the property itself) that everything sent before has been received; a marker that never arrives is inconclusive here (C03 decides lost wake-ups)",
		},
		modes: func(tier string, seed int64) []modeSpec {
			a, b := 1500, 360
			div := 16
			if tier == "thorough" {
				a, b = 60000, 4000
				div = 64
			}
			return []modeSpec{
				{name: "raw", n: a, perChild: a / 16, timeout: 20 * time.Minute, env: []string{"VERIF_HOOK=chaos", "VERIF_HOOK_PROB=30", "VERIF_HOOK_MAXUS=30"}},
				{name: "engine", n: b, perChild: b / div, race: true, timeout: 30 * time.Minute, env: []string{"VERIF_HOOK=chaos", "VERIF_HOOK_PROB=5", "VERIF_HOOK_MAXUS=10"}},
				{name: "engine-plain", n: b, perChild: b / div, timeout: 30 * time.Minute},
				{name: "sustained", n: b / 6, perChild: b / 6 / 12, timeout: 20 * time.Minute, env: []string{"VERIF_HOOK=chaos", "VERIF_HOOK_PROB=10", "VERIF_HOOK_MAXUS=10"}},
				{name: "burst-drain", n: b / 6, perChild: b / 6 / 12, timeout: 20 * time.Minute, env: []string{"VERIF_HOOK=chaos", "VERIF_HOOK_PROB=10", "VERIF_HOOK_MAXUS=5"}},
				{name: "burst-drain-plain", n: b / 6, perChild: b / 6 / 12, timeout: 20 * time.Minute},
			}
		},
		run: func(c *caseCtx) caseResult {
			if c.mode == "raw" {
				return c01Raw(c)
			}
			if c.mode == "sustained" {
				return c01Sustained(c)
			}
			if strings.HasPrefix(c.mode, "burst-drain") {
				return c01BurstDrain(c)
			}
			return c01Engine(c)
		},
		minDistinct: 40,
	})
}

type tmsg struct {
	Sender int // sender goroutine index
	Seq    int // per sender
	Baton  int // >0: position in a baton chain
	Final  bool
	done   chan struct{}
}

// rawProc is a recording Processer for a raw Inbox.
type rawProc struct {
	mu       sync.Mutex
	got      []actor.Envelope
	batches  []int
	inflight int32
	overlaps int32
	final    chan struct{}
}

func (p *rawProc) Start()                           {}
func (p *rawProc) PID() *actor.PID                  { return nil }
func (p *rawProc) Send(*actor.PID, any, *actor.PID) {}
func (p *rawProc) Shutdown()                        {}
func (p *rawProc) Invoke(msgs []actor.Envelope) {
	if atomic.AddInt32(&p.inflight, 1) != 1 {
		atomic.AddInt32(&p.overlaps, 1)
	}
	userPerturb()
	p.mu.Lock()
	p.got = append(p.got, msgs...)
	p.batches = append(p.batches, len(msgs))
	p.mu.Unlock()
	for _, m := range msgs {
		if t, ok := m.Msg.(*tmsg); ok && t.Final {
			close(t.done)
		}
	}
	atomic.AddInt32(&p.inflight, -1)
}

type sentRec struct {
	msg    *tmsg
	sender *actor.PID
}

func c01Raw(c *caseCtx) (res caseResult) {
	r := c.rng
	wd := watchdog(c.tier)
	size := pick(r, 1, 2, 3, 4, 5, 6, 7, 8, 9, 63, 64, 65, 1024)
	nS := 1 + r.Intn(8)
	per := 1 + r.Intn(50)
	startWhen := r.Intn(3) // 0 before, 1 among, 2 after the sends
	in := actor.NewInbox(size)
	p := &rawProc{}
	senderPIDs := []*actor.PID{nil, actor.NewPID("local", "s/1"), actor.NewPID("local", "s/2"), actor.NewPID("local", "s/1")}
	sent := make([][]sentRec, nS)
	if startWhen == 0 {
		in.Start(p)
	}
	var wg sync.WaitGroup
	half := make(chan struct{})
	var halfOnce sync.Once
	for s := 0; s < nS; s++ {
		s := s
		wg.Add(1)
		go func() {
			defer wg.Done()
			for i := 0; i < per; i++ {
				m := &tmsg{Sender: s, Seq: i}
				sp := senderPIDs[(s+i)%len(senderPIDs)]
				sent[s] = append(sent[s], sentRec{m, sp})
				in.Send(actor.Envelope{Msg: m, Sender: sp})
				if i == per/2 {
					halfOnce.Do(func() { close(half) })
				}
			}
		}()
	}
	if startWhen == 1 {
		<-half
		in.Start(p)
	}
	wg.Wait()
	if startWhen == 2 {
		in.Start(p)
	}
	fin := &tmsg{Sender: -1, Final: true, done: make(chan struct{})}
	in.Send(actor.Envelope{Msg: fin})
	res.Desc = fmt.Sprintf("raw size=%d senders=%d per=%d start=%d", size, nS, per, startWhen)
	isDone := func(ch chan struct{}) func() bool {
		return func() bool {
			select {
			case <-ch:
				return true
			default:
				return false
			}
		}
	}
	invoked := func() int64 { p.mu.Lock(); defer p.mu.Unlock(); return int64(len(p.got)) }
	if fin1, stalled := settle(wd, 10*time.Second, isDone(fin.done), invoked); !fin1 {
		if !stalled {
			res.inconclusive("final marker not invoked within the watchdog although invocations were still coming (%s)", res.Desc)
			return
		}
		// nothing has been invoked for 10 s and the marker is still missing. Decide on state: is the process at
		// rest (no worker goroutine left)? Then, if one further send makes the stranded messages appear, they were
		// resting in an idle inbox
		late, rest, where := stallVerdict(wd, isDone(fin.done))
		if !late {
			if !rest {
				res.inconclusive("final marker not invoked within the watchdog, the process is not at rest: %s (%s)", where, res.Desc)
				return
			}
			in.Send(actor.Envelope{Msg: &tmsg{Sender: -3}})
			if fin2, _ := settle(wd/3, 10*time.Second, isDone(fin.done), invoked); fin2 {
				res.violate("the final marker (and what was queued before it) was handed over only after a further send kicked the inbox, which had been at rest (%s): messages sent to a live inbox were not delivered (%s)", where, res.Desc)
			} else {
				res.violate("the final marker was never handed over: the process is at rest (%s) and a further send changed nothing (%s)", where, res.Desc)
			}
			return
		}
	}
	p.mu.Lock()
	got := append([]actor.Envelope(nil), p.got...)
	batches := append([]int(nil), p.batches...)
	p.mu.Unlock()
	c01Judge(&res, sent, got, nil)
	if o := atomic.LoadInt32(&p.overlaps); o > 0 {
		res.violate("%d overlapping Invoke calls on one inbox", o)
	}
	maxB := 0
	for _, b := range batches {
		if b > maxB {
			maxB = b
		}
	}
	res.count("messages", int64(nS*per))
	res.count("batches", int64(len(batches)))
	if nS >= 2 || maxB > size {
		res.Sig = sigHash("raw", size, nS, startWhen, len(batches) > 1, maxB > size)
	}
	if c.n < 2 || res.Verdict == vViolated {
		res.Sample = map[string]any{"scenario": res.Desc, "batch_sizes": firstInts(batches, 40), "received": len(got)}
	}
	in.Stop()
	return res
}

func firstInts(x []int, n int) []int {
	if len(x) > n {
		return x[:n]
	}
	return x
}

// c01Judge compares the send log with the receive log.
func c01Judge(res *caseResult, sent [][]sentRec, got []actor.Envelope, batons []*tmsg) {
	type key struct{ s, q int }
	exp := map[key]sentRec{}
	total := 0
	for _, ss := range sent {
		for _, sr := range ss {
			exp[key{sr.msg.Sender, sr.msg.Seq}] = sr
			total++
		}
	}
	seen := map[key]int{}
	last := map[int]int{}
	lastBaton := 0
	nRecv := 0
	for _, env := range got {
		t, ok := env.Msg.(*tmsg)
		if !ok {
			res.violate("received something that was never sent: %T", env.Msg)
			continue
		}
		if t.Final {
			continue
		}
		nRecv++
		k := key{t.Sender, t.Seq}
		sr, known := exp[k]
		if !known {
			res.violate("received a message nobody sent: sender %d seq %d", t.Sender, t.Seq)
			continue
		}
		if sr.msg != t {
			res.violate("message sender=%d seq=%d arrived as a different object", t.Sender, t.Seq)
		}
		seen[k]++
		if seen[k] == 2 {
			res.violate("message sender=%d seq=%d delivered more than once", t.Sender, t.Seq)
		}
		if (env.Sender == nil) != (sr.sender == nil) || (env.Sender != nil && !env.Sender.Equals(sr.sender)) {
			res.violate("message sender=%d seq=%d arrived with sender PID %v, sent with %v", t.Sender, t.Seq, env.Sender, sr.sender)
		}
		if l, ok := last[t.Sender]; ok && t.Seq < l {
			res.violate("sender %d: seq %d received after seq %d (order not preserved)", t.Sender, t.Seq, l)
		}
		last[t.Sender] = t.Seq
		if t.Baton > 0 {
			if t.Baton < lastBaton {
				res.violate("baton %d received after baton %d although its send happened-before", t.Baton, lastBaton)
			}
			lastBaton = t.Baton
		}
	}
	if len(seen) != total {
		missing := 0
		var ex key
		for k := range exp {
			if seen[k] == 0 {
				missing++
				ex = k
			}
		}
		res.violate("%d of %d messages were never delivered although the final marker (sent after them) was, e.g. sender %d seq %d", missing, total, ex.s, ex.q)
	}
}

// ---- engine level -------------------------------------------------------------

// plainRecv records without any synchronisation: its log is read only after
// the final marker's channel close (happens-before, if C02 holds).
type plainRecv struct {
	delivered     int64 // progress indicator (atomic); only kept in the plain build: an atomic in Receive would
	countProgress bool  // order the Receives for the race detector
	got           []actor.Envelope
	gateIn        chan struct{}
	gateOut       chan struct{}
	target        *actor.PID // for the forwarding actor
	fwdTo         *actor.PID // relay target (Context.Forward)
}

func (p *plainRecv) progress() int64 { return atomic.LoadInt64(&p.delivered) }

type gateMsg struct{}
type goMsg struct {
	N      int
	Target *actor.PID
}

func (p *plainRecv) Receive(c *actor.Context) {
	switch m := c.Message().(type) {
	case actor.Initialized, actor.Started, actor.Stopped:
	case gateMsg:
		close(p.gateIn)
		<-p.gateOut
	case *tmsg:
		if p.fwdTo != nil && m.Sender == 2000 {
			// relay: Context.Forward hands the message itself on, with the forwarder as the sender
			c.Forward(p.fwdTo)
			return
		}
		if p.countProgress {
			atomic.AddInt64(&p.delivered, 1)
		}
		p.got = append(p.got, actor.Envelope{Msg: m, Sender: c.Sender()})
		if m.Final {
			close(m.done)
		}
	case crashMsg:
		// a message this actor crashes on: what is queued behind it is still owed to the (restarted) actor, in order
		panic("scripted crash in a C01 receiver")
	case goMsg:
		// actor-to-actor: successive sends from one actor
		for i := 0; i < m.N; i++ {
			c.Send(m.Target, &tmsg{Sender: 1000, Seq: i})
		}
	}
}

func c01Engine(c *caseCtx) (res caseResult) {
	r := c.rng
	wd := watchdog(c.tier) * 2
	e, err := actor.NewEngine(actor.NewEngineConfig())
	if err != nil {
		res.inconclusive("engine: %v", err)
		return
	}
	size := pick(r, 1, 2, 3, 7, 8, 1024)
	nS := 1 + r.Intn(16)
	backlogClass := r.Intn(9)
	backlog := []int{0, 1, size - 1, size, 2*size + 1, 4095, 4096, 4097, 10000}[backlogClass]
	if backlog < 0 {
		backlog = 0
	}
	trickle := 1 + r.Intn(20)
	rc := &plainRecv{gateIn: make(chan struct{}), gateOut: make(chan struct{}), countProgress: c.mode == "engine-plain"}
	crashy := r.Intn(3) == 0
	pid := e.Spawn(func() actor.Receiver { return rc }, "c01", actor.WithID("t"), actor.WithInboxSize(size), actor.WithMaxRestarts(1000000), actor.WithRestartDelay(0))
	fw := &plainRecv{fwdTo: pid}
	fwPID := e.Spawn(func() actor.Receiver { return fw }, "c01", actor.WithID("fw"), actor.WithInboxSize(pick(r, 1, 8)))
	senderPIDs := []*actor.PID{nil, actor.NewPID("local", "s/1"), nil, actor.NewPID("local", "s/2")}
	sent := make([][]sentRec, nS+2)
	// hold the actor so that the backlog forms behind the gate
	e.Send(pid, gateMsg{})
	select {
	case <-rc.gateIn:
	case <-time.After(wd):
		res.inconclusive("gate not reached")
		return
	}
	// backlog phase: the senders share the backlog
	var wg sync.WaitGroup
	perS := backlog / nS
	for s := 0; s < nS; s++ {
		s := s
		n := perS
		if s == 0 {
			n += backlog - perS*nS
		}
		wg.Add(1)
		go func() {
			defer wg.Done()
			for i := 0; i < n; i++ {
				m := &tmsg{Sender: s, Seq: i}
				sp := senderPIDs[(s+i)%len(senderPIDs)]
				sent[s] = append(sent[s], sentRec{m, sp})
				e.SendWithSender(pid, m, sp)
				if crashy && s == 0 && i%11 == 5 {
					e.Send(pid, crashMsg{ID: i})
				}
			}
		}()
	}
	wg.Wait()
	// actor-to-actor sends join the backlog
	fwN := r.Intn(30)
	if fwN > 0 {
		e.Send(fwPID, goMsg{N: fwN, Target: pid})
	}
	// ... and messages relayed with Context.Forward: the same message, in order, once, the forwarder as sender
	relayN := r.Intn(20)
	relayFrom := actor.NewPID("local", "origin/1")
	for i := 0; i < relayN; i++ {
		var sp *actor.PID
		if i%3 != 2 {
			sp = relayFrom
		}
		e.SendWithSender(fwPID, &tmsg{Sender: 2000, Seq: i}, sp)
	}
	close(rc.gateOut)
	// trickle phase, with a baton chain across the sender goroutines
	baton := make(chan int, 1)
	baton <- 1
	chain := 2 + r.Intn(20)
	for s := 0; s < nS; s++ {
		s := s
		base := len(sent[s])
		wg.Add(1)
		go func() {
			defer wg.Done()
			for i := 0; i < trickle; i++ {
				m := &tmsg{Sender: s, Seq: base + i}
				sp := senderPIDs[(s+i)%len(senderPIDs)]
				sent[s] = append(sent[s], sentRec{m, sp})
				if i%3 == 0 {
					// a baton send: ordered by happens-before after the previous holder's send
					b := <-baton
					if b <= chain {
						m.Baton = b
					}
					e.SendWithSender(pid, m, sp)
					baton <- b + 1
					continue
				}
				e.SendWithSender(pid, m, sp)
				if crashy && s == 0 && i%7 == 3 {
					e.Send(pid, crashMsg{ID: i})
				}
			}
		}()
	}
	wg.Wait()
	// the forwarding actor's sends: wait until it has been told to go and has finished (its own final marker)
	ffin := &tmsg{Sender: -2, Final: true, done: make(chan struct{})}
	e.Send(fwPID, ffin)
	select {
	case <-ffin.done:
	case <-time.After(wd):
		res.inconclusive("forwarding actor did not finish")
		return
	}
	fwSelf := actor.NewPID("local", "c01/fw")
	for i := 0; i < fwN; i++ {
		sent[nS] = append(sent[nS], sentRec{&tmsg{Sender: 1000, Seq: i}, fwSelf})
	}
	fin := &tmsg{Sender: -1, Final: true, done: make(chan struct{})}
	e.Send(pid, fin)
	res.Desc = fmt.Sprintf("engine size=%d senders=%d backlog=%d(class %d) trickle=%d actor-to-actor=%d crashes-in-between=%v", size, nS, backlog, backlogClass, trickle, fwN, crashy)
	isDone := func() bool {
		select {
		case <-fin.done:
			return true
		default:
			return false
		}
	}
	if !rc.countProgress {
		// -race build: no progress counter (it would synchronise the Receives); a missing marker is left to the plain build
		select {
		case <-fin.done:
		case <-time.After(wd):
			res.inconclusive("final marker not received within the watchdog (%s)", res.Desc)
			return
		}
	} else if fin1, stalled := settle(wd, 10*time.Second, isDone, rc.progress); !fin1 {
		if !stalled {
			res.inconclusive("final marker not received within the watchdog although deliveries were still coming (%s)", res.Desc)
			return
		}
		late, rest, where := stallVerdict(wd, isDone)
		if !late {
			if !rest {
				res.inconclusive("final marker not received within the watchdog, the process is not at rest: %s (%s)", where, res.Desc)
				return
			}
			e.Send(pid, &tmsg{Sender: -3})
			if fin2, _ := settle(wd/3, 10*time.Second, isDone, rc.progress); fin2 {
				res.violate("the final marker (and what was queued before it) was received only after a further send kicked the actor, which had been at rest (%s): messages sent to a live actor were not delivered (%s)", where, res.Desc)
			} else {
				res.violate("the final marker was never received: the process is at rest (%s) and a further send changed nothing (%s)", where, res.Desc)
			}
			return
		}
	}
	got := rc.got
	// the forwarded messages are fresh objects created inside the actor: match them by id only
	var got2 []actor.Envelope
	fwSeen := map[int]int{}
	lastFw := -1
	relaySeen := map[int]int{}
	lastRelay := -1
	for _, env := range got {
		t := env.Msg.(*tmsg)
		if t.Sender == 2000 {
			relaySeen[t.Seq]++
			if t.Seq < lastRelay {
				res.violate("relayed (Context.Forward): seq %d received after %d", t.Seq, lastRelay)
			}
			lastRelay = t.Seq
			// (documented: Forward makes the forwarder the sender)
			if !samePID(env.Sender, fwSelf) {
				res.violate("relayed message %d arrived with sender %v; Context.Forward sends with the forwarding actor %v as the sender", t.Seq, env.Sender, fwSelf)
			}
			continue
		}
		if t.Sender == 1000 {
			fwSeen[t.Seq]++
			if t.Seq < lastFw {
				res.violate("actor-to-actor: seq %d received after %d", t.Seq, lastFw)
			}
			lastFw = t.Seq
			if env.Sender == nil || !env.Sender.Equals(fwSelf) {
				res.violate("actor-to-actor message arrived with sender %v, expected the sending actor %v", env.Sender, fwSelf)
			}
			continue
		}
		got2 = append(got2, env)
	}
	for i := 0; i < fwN; i++ {
		if fwSeen[i] != 1 {
			res.violate("actor-to-actor message %d delivered %d times", i, fwSeen[i])
			break
		}
	}
	for i := 0; i < relayN; i++ {
		if relaySeen[i] != 1 {
			res.violate("relayed message %d delivered %d times", i, relaySeen[i])
			break
		}
	}
	c01Judge(&res, sent[:nS], got2, nil)
	res.count("messages", int64(len(got)))
	res.count("backlog_ge_4096", b2i(backlog >= 4096))
	res.count("ring_grew", b2i(backlog >= size))
	if backlog >= size || nS >= 2 {
		res.Sig = sigHash("engine", size, nS, backlogClass, fwN > 0, crashy)
	}
	if c.n < 2 || res.Verdict == vViolated {
		res.Sample = map[string]any{"scenario": res.Desc, "received": len(got)}
	}
	e.Poison(pid)
	e.Poison(fwPID)
	return res
}

func b2i(b bool) int64 {
	if b {
		return 1
	}
	return 0
}

// ---- sustained: the inbox never runs dry for longer than the worker's throughput budget ----

type sustRecv struct {
	mu      sync.Mutex
	got     []*tmsg
	senders []*actor.PID
	entered chan int
	release chan struct{}
}

func (a *sustRecv) Receive(c *actor.Context) {
	m, ok := c.Message().(*tmsg)
	if !ok {
		return
	}
	a.mu.Lock()
	a.got = append(a.got, m)
	a.senders = append(a.senders, c.Sender())
	a.mu.Unlock()
	if m.Sender == 0 {
		a.entered <- m.Seq
		<-a.release
	}
}

// c01Sustained: a paced sender queues message i+1 before message i is released,
// so every pop of one worker run finds the inbox non-empty, for more pops than
// the throughput budget (300); two free-running senders add their own streams
// all the while. Oracle: per sender, exactly the sent sequence, in order, once,
// with the sender PID it was sent with.
func c01Sustained(c *caseCtx) (res caseResult) {
	r := c.rng
	wd := watchdog(c.tier)
	e, err := actor.NewEngine(actor.NewEngineConfig())
	if err != nil {
		res.inconclusive("engine: %v", err)
		return
	}
	n := 320 + r.Intn(600)
	free := r.Intn(3)
	size := pick(r, 1, 8, 1024)
	rc := &sustRecv{entered: make(chan int, 4), release: make(chan struct{})}
	pid := e.Spawn(func() actor.Receiver { return rc }, "c01", actor.WithID("sust"), actor.WithInboxSize(size))
	res.Desc = fmt.Sprintf("sustained paced=%d free-senders=%d inbox=%d", n, free, size)
	spid := []*actor.PID{actor.NewPID("local", "s/0"), nil, actor.NewPID("local", "s/2")}
	var stop int32
	var wg sync.WaitGroup
	freeSent := make([]int, 3)
	for g := 1; g <= free; g++ {
		g := g
		wg.Add(1)
		go func() {
			defer wg.Done()
			for k := 0; atomic.LoadInt32(&stop) == 0 && k < 200000; k++ {
				e.SendWithSender(pid, &tmsg{Sender: g, Seq: k}, spid[g])
				freeSent[g] = k + 1
				if k%64 == 0 {
					time.Sleep(50 * time.Microsecond)
				}
			}
		}()
	}
	e.SendWithSender(pid, &tmsg{Sender: 0, Seq: 0}, spid[0])
	for i := 1; i <= n; i++ {
		select {
		case <-rc.entered:
		case <-time.After(wd):
			atomic.StoreInt32(&stop, 1)
			res.inconclusive("paced message %d was not delivered within the watchdog (%s)", i-1, res.Desc)
			return
		}
		if i < n {
			e.SendWithSender(pid, &tmsg{Sender: 0, Seq: i}, spid[0])
		}
		rc.release <- struct{}{}
	}
	atomic.StoreInt32(&stop, 1)
	wg.Wait()
	total := n + freeSent[1] + freeSent[2]
	count := func() int { rc.mu.Lock(); defer rc.mu.Unlock(); return len(rc.got) }
	if fin, _ := settle(wd, 10*time.Second, func() bool { return count() >= total }, func() int64 { return int64(count()) }); !fin {
		// decide on state: at rest? then a sentinel behind everything
		before := count()
		late, rest, where := stallVerdict(wd, func() bool { return count() >= total })
		if !late {
			if !rest {
				res.inconclusive("only %d of %d messages delivered within the watchdog, the process is not at rest: %s (%s)", count(), total, where, res.Desc)
				return
			}
			fin := &tmsg{Sender: 0, Seq: n}
			e.SendWithSender(pid, fin, spid[0])
			select {
			case <-rc.entered:
				rc.release <- struct{}{}
				if count()-1 >= total {
					res.violate("%d of %d messages had been delivered when the process came to rest (%s); the others arrived only after a further message kicked the actor (%s)", before, total, where, res.Desc)
				} else {
					res.violate("%d of %d messages delivered although a message sent after all of them has been delivered (%s)", count()-1, total, res.Desc)
				}
			case <-time.After(wd):
				res.violate("%d of %d messages delivered, the process is at rest (%s) and a further message changed nothing (%s)", count(), total, where, res.Desc)
			}
			return
		}
	}
	rc.mu.Lock()
	next := make([]int, 3)
	for i, m := range rc.got {
		if m.Seq != next[m.Sender] {
			res.violate("sender %d: message %d delivered where %d was due (out of order, lost or duplicated) (%s)", m.Sender, m.Seq, next[m.Sender], res.Desc)
			break
		}
		next[m.Sender]++
		if !samePID(rc.senders[i], spid[m.Sender]) {
			res.violate("sender %d message %d delivered with sender %v, sent with %v", m.Sender, m.Seq, rc.senders[i], spid[m.Sender])
			break
		}
	}
	if len(rc.got) != total && res.Verdict != vViolated {
		res.violate("%d messages delivered, %d sent (%s)", len(rc.got), total, res.Desc)
	}
	rc.mu.Unlock()
	res.count("sustained_pops", int64(n))
	res.count("deliveries", int64(total))
	res.Sig = sigHash("c01sust", n/40, free, size)
	if c.n < 1 || res.Verdict == vViolated {
		res.Sample = map[string]any{"scenario": res.Desc}
	}
	<-e.Poison(pid).Done()
	return res
}

// ---- burst-drain: the inbox grows in a burst, is drained completely, and the next burst arrives at that very moment ----

type bdRecv struct {
	mu   sync.Mutex
	got  [][2]int
	nils int
	n    int64
}

func (a *bdRecv) Receive(c *actor.Context) {
	switch m := c.Message().(type) {
	case actor.Initialized, actor.Started, actor.Stopped:
	case *tmsg:
		a.mu.Lock()
		a.got = append(a.got, [2]int{m.Sender, m.Seq})
		a.mu.Unlock()
		atomic.AddInt64(&a.n, 1)
	default:
		a.mu.Lock()
		a.nils++
		a.mu.Unlock()
		atomic.AddInt64(&a.n, 1)
	}
}

func c01BurstDrain(c *caseCtx) (res caseResult) {
	r := c.rng
	wd := watchdog(c.tier)
	e, err := actor.NewEngine(actor.NewEngineConfig())
	if err != nil {
		res.inconclusive("engine: %v", err)
		return
	}
	size := pick(r, 1, 2, 3, 8)
	S := 2 + r.Intn(4)
	rounds := 300 + r.Intn(500)
	burst := 5 + r.Intn(6)
	rc := &bdRecv{}
	pid := e.Spawn(func() actor.Receiver { return rc }, "c01", actor.WithID("bd"), actor.WithInboxSize(size))
	res.Desc = fmt.Sprintf("burst-drain inbox=%d senders=%d rounds=%d burst=%d", size, S, rounds, burst)
	var sent int64
	var wg sync.WaitGroup
	var gaveUp int32
	for s := 0; s < S; s++ {
		s := s
		wg.Add(1)
		go func() {
			defer wg.Done()
			seq := 0
			for rd := 0; rd < rounds && atomic.LoadInt32(&gaveUp) == 0; rd++ {
				for k := 0; k < burst; k++ {
					e.Send(pid, &tmsg{Sender: s, Seq: seq})
					seq++
					atomic.AddInt64(&sent, 1)
				}
				// resume exactly when the actor has caught up with everything sent so far
				spins := 0
				for atomic.LoadInt64(&rc.n) < atomic.LoadInt64(&sent) {
					runtime.Gosched()
					spins++
					if spins > 2000000 {
						atomic.StoreInt32(&gaveUp, 1)
						return
					}
				}
			}
		}()
	}
	wg.Wait()
	total := int(atomic.LoadInt64(&sent))
	count := func() int { return int(atomic.LoadInt64(&rc.n)) }
	if count() < total {
		late, rest, where := stallVerdict(wd, func() bool { return count() >= total })
		if !late {
			if !rest {
				res.inconclusive("%d of %d delivered, the process is not at rest: %s (%s)", count(), total, where, res.Desc)
				return
			}
			before := count()
			e.Send(pid, &tmsg{Sender: S, Seq: 0})
			waitFor(wd/3, func() bool { return count() > before })
			res.violate("%d of %d messages delivered and the process is at rest (%s): the others are lost (after one more message %d deliveries had been made) (%s)", before, total, where, count(), res.Desc)
			return
		}
	}
	rc.mu.Lock()
	next := make([]int, S+1)
	for _, g := range rc.got {
		if g[0] < 0 || g[0] > S {
			continue
		}
		if g[1] != next[g[0]] {
			res.violate("sender %d: message %d delivered where %d was due (lost, duplicated or out of order) (%s)", g[0], g[1], next[g[0]], res.Desc)
			break
		}
		next[g[0]]++
	}
	if rc.nils > 0 {
		res.violate("%d deliveries of something that was never sent (%s)", rc.nils, res.Desc)
	}
	rc.mu.Unlock()
	res.count("burst_drain_rounds", int64(rounds*S))
	res.count("deliveries", int64(total))
	res.Sig = sigHash("c01bd", size, S, burst)
	<-e.Poison(pid).Done()
	return res
}
