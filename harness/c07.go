package main

// C07 — Stop/Poison: drain, stop, then signal, and every caller is signalled.
//
//   script  gate-pinned scripts with one or several pills per batch, pills behind
//           crashes (replay), crashes while draining; exact model (script.go)
//   conc    free-running scenarios: several concurrent Poison/Stop callers, senders
//           that keep sending, self-poison from inside Receive, parent shutdown
//           racing a direct stop of the child, unknown/stopped/nil targets
//   directed  the history of the (repaired) finding "stop request issued while the
//           target is inside its Stopped handler": an ordinary case that must hold

import (
	"context"
	"fmt"
	"math/rand"
	"sync"
	"sync/atomic"
	"time"

	"github.com/anthdm/hollywood/actor"
)

func init() {
	register(&prop{
		id:    "C07",
		level: "exploration",
		rule: "script: gate-pinned scripts with 1-3 pills (Poison/Stop) per run at PRNG positions, also behind crashes and with crashes while draining, judged by the exact sequential model; conc: free-running scenarios with 1-4 concurrent callers x 0-4 senders x {poison,stop,self-poison,parent+child} under injected yields; " +
			"at the moment each caller sees Done the monitor checks: Stopped fully handled, unregistered, (single-request scenarios) every message sent before the call handled; afterwards a probe dead-letters exactly once; pills never reach Receive. Non-trivial = the actor ended through a pill; distinct by scenario shape",
		assumptions: []string{
			"'eventually done' is decided on state: once ActorStoppedEvent has been seen and the target is unregistered an open context can never be closed; a bare watchdog expiry is inconclusive",
			"with several stop requests for one actor the drain guarantee ('every message sent before the Poison call has been handled') is judged only for scenarios with a single stop request: a concurrent Stop, or an earlier Poison that wins, legitimately ends the actor before a later caller's messages are handled",
			"the history of the repaired finding C07-8549780 (request while the target is inside its Stopped handler) is replayed as a directed case on every run",
		},
		modes: func(tier string, seed int64) []modeSpec {
			n, m := 700, 1600
			if tier == "thorough" {
				n, m = 40000, 160000
			}
			return []modeSpec{
				{name: "script", n: n, perChild: n / 16, timeout: 20 * time.Minute},
				{name: "conc", n: m, perChild: m / 16, timeout: 20 * time.Minute, env: []string{"VERIF_HOOK=chaos", "VERIF_HOOK_PROB=30", "VERIF_HOOK_MAXUS=100"}},
				{name: "conc-plain", n: m / 2, perChild: m / 32, timeout: 20 * time.Minute},
				{name: "directed", n: 8, perChild: 4, timeout: 5 * time.Minute},
			}
		},
		run: func(c *caseCtx) caseResult {
			switch c.mode {
			case "script":
				spec := c07Script(c.rng, c.n)
				out := runScript(c, spec)
				if !out.sim.stopped {
					out.res.Sig = ""
				}
				return out.res
			case "directed":
				return c07Known(c)
			default:
				return c07Conc(c)
			}
		},
		minDistinct: 40,
	})
}

func c07Script(r *rand.Rand, n int) *scriptSpec {
	ids := &idGen{}
	spec := &scriptSpec{InboxSize: pick(r, 1, 2, 8, 1024), MaxRestarts: pick(r, 0, 1, 3, 4), RestartDelay: randDelay(r), CrashInit: map[int]bool{}, CrashStart: map[int]bool{}, WithSender: r.Intn(2) == 0}
	pill := func() item {
		if r.Intn(3) == 0 {
			return item{Kind: itStop, ID: ids.next()}
		}
		return item{Kind: itPoison, ID: ids.next()}
	}
	var bodies [][]item
	nseg := 1 + r.Intn(2)
	for s := 0; s < nseg; s++ {
		last := s == nseg-1
		var b []item
		k := r.Intn(7)
		if r.Intn(30) == 0 {
			measureBatchMax()
			k = pick(r, batchMax-2, batchMax-1, batchMax, batchMax+4)
		}
		b = append(b, msgs(ids, k)...)
		if last {
			// the stop request(s)
			switch n % 6 {
			case 0: // plain
				b = append(b, pill())
			case 1: // messages behind the pill
				b = append(b, pill())
				b = append(b, msgs(ids, 1+r.Intn(4))...)
			case 2: // several requests
				b = append(b, pill())
				b = append(b, msgs(ids, r.Intn(3))...)
				b = append(b, pill())
				if r.Intn(2) == 0 {
					b = append(b, pill())
				}
			case 3: // crash while draining
				b = append(b, item{Kind: itPoison, ID: ids.next()})
				b = append(b, msgs(ids, r.Intn(3))...)
				b = append(b, item{Kind: itCrash, ID: ids.next()})
				b = append(b, msgs(ids, r.Intn(3))...)
				if r.Intn(2) == 0 {
					b = append(b, pill())
				}
			case 4: // pill behind a crash: it is replayed from the restart buffer
				b = append(b, item{Kind: itCrash, ID: ids.next()})
				b = append(b, msgs(ids, r.Intn(3))...)
				b = append(b, pill())
				b = append(b, msgs(ids, r.Intn(3))...)
			default: // two crashes around the pill
				b = append(b, item{Kind: itCrash, ID: ids.next()})
				b = append(b, item{Kind: itPoison, ID: ids.next()})
				b = append(b, item{Kind: itCrash, ID: ids.next()})
				b = append(b, msgs(ids, 1)...)
			}
		} else if r.Intn(3) == 0 {
			b = append(b, item{Kind: itCrash, ID: ids.next()})
			b = append(b, msgs(ids, r.Intn(3))...)
		}
		bodies = append(bodies, b)
	}
	// a segment that the model will not let us send (the actor has ended); without it the
	// batch that holds the stop request ends with its own last item instead of a gate
	// (e.g. the crash while draining is on the very last message of the batch)
	if r.Intn(3) != 0 {
		bodies = append(bodies, msgs(ids, 2))
	}
	spec.Segments = buildSegments(ids, bodies...)
	if r.Intn(5) == 0 {
		spec.Children = 1 + r.Intn(2)
	}
	if r.Intn(4) == 0 {
		spec.CtxCancel = 1 + r.Intn(2)
	}
	return spec
}

// ---- free-running scenarios -----------------------------------------------------------

type concState struct {
	mu           sync.Mutex
	handled      map[int]int // message id -> times handled
	order        []int
	stoppedBegun int32
	stoppedDone  int32
	stoppedCount int32
	afterStopped int32
	leaks        int32
	started      int32
	selfCtx      atomic.Value // context.Context
	slowUs       int
	stopGate     chan struct{} // if set, the Stopped handler waits for it
	stopEntered  chan struct{}
	childOf      *concState
}

type concMsg struct {
	ID   int
	Self bool // poison yourself
	Stop bool
}

type concActor struct{ st *concState }

func (a *concActor) Receive(c *actor.Context) {
	st := a.st
	switch m := c.Message().(type) {
	case actor.Initialized:
	case actor.Started:
		atomic.AddInt32(&st.started, 1)
	case actor.Stopped:
		atomic.AddInt32(&st.stoppedCount, 1)
		atomic.StoreInt32(&st.stoppedBegun, 1)
		if st.stopEntered != nil {
			close(st.stopEntered)
			<-st.stopGate
		}
		if st.slowUs > 0 {
			time.Sleep(time.Duration(st.slowUs) * time.Microsecond)
		}
		atomic.StoreInt32(&st.stoppedDone, 1)
	case *concMsg:
		if atomic.LoadInt32(&st.stoppedBegun) == 1 {
			atomic.AddInt32(&st.afterStopped, 1)
		}
		st.mu.Lock()
		st.handled[m.ID]++
		st.order = append(st.order, m.ID)
		st.mu.Unlock()
		if m.Self {
			var ctx context.Context
			if m.Stop {
				ctx = c.Engine().Stop(c.PID())
			} else {
				ctx = c.Engine().Poison(c.PID())
			}
			st.selfCtx.Store(ctx)
		}
	default:
		atomic.AddInt32(&st.leaks, 1)
	}
}

func newConcState() *concState { return &concState{handled: map[int]int{}} }

func (st *concState) wasHandled(id int) bool {
	st.mu.Lock()
	defer st.mu.Unlock()
	return st.handled[id] > 0
}

type callerResult struct {
	kind         string
	doneAtReturn bool
	done         bool
	stoppedDone  bool
	registered   bool
	missing      []int
}

func c07Conc(c *caseCtx) (res caseResult) {
	r := c.rng
	wd := watchdog(c.tier)
	e, mon, _, err := newMonitoredEngine()
	if err != nil {
		res.inconclusive("engine setup: %v", err)
		return
	}
	shape := r.Intn(10)
	st := newConcState()
	st.slowUs = pick(r, 0, 0, 20, 200)
	inbox := pick(r, 1, 2, 8, 1024)
	var pid, childPID *actor.PID
	childSt := newConcState()
	parentMode := shape == 7 || shape == 8
	if parentMode {
		// a parent with one child; the child is poisoned directly while the parent shuts down
		childSt.slowUs = pick(r, 0, 50, 300)
		pid = e.Spawn(func() actor.Receiver {
			return &parentOf{concActor: concActor{st: st}, spawn: func(c *actor.Context) {
				childPID = c.SpawnChild(func() actor.Receiver { return &concActor{st: childSt} }, "kid", actor.WithID("k"), actor.WithInboxSize(inbox))
			}}
		}, "conc", actor.WithID("p"), actor.WithInboxSize(inbox))
	} else {
		sopts := []actor.OptFunc{actor.WithID("p"), actor.WithInboxSize(inbox)}
		if r.Intn(4) == 0 {
			// the actor's own spawn context is cancelled while it lives: that must not signal anybody
			sctx, cancel := context.WithCancel(context.Background())
			sopts = append(sopts, actor.WithContext(sctx))
			cancel()
		}
		pid = e.Spawn(func() actor.Receiver { return &concActor{st: st} }, "conc", sopts...)
	}
	nSenders := r.Intn(5)
	nCallers := 1 + r.Intn(4)
	single := shape <= 3 // exactly one stop request: the drain guarantee is judged
	if single {
		nCallers = 1
	}
	perSender := 1 + r.Intn(40)
	var idc int64
	nextID := func() int { return int(atomic.AddInt64(&idc, 1)) }

	// senders: a "before" part (ends before the barrier the callers wait for) and a concurrent part
	var beforeIDs [][]int = make([][]int, nSenders)
	var swg sync.WaitGroup
	barrier := make(chan struct{})
	var bwg sync.WaitGroup
	stopSending := make(chan struct{})
	for s := 0; s < nSenders; s++ {
		s := s
		swg.Add(1)
		bwg.Add(1)
		go func() {
			defer swg.Done()
			for i := 0; i < perSender; i++ {
				id := nextID()
				e.Send(pid, &concMsg{ID: id})
				beforeIDs[s] = append(beforeIDs[s], id)
			}
			bwg.Done()
			<-barrier
			for i := 0; i < perSender; i++ {
				select {
				case <-stopSending:
					return
				default:
				}
				e.Send(pid, &concMsg{ID: nextID()})
			}
		}()
	}
	bwg.Wait()
	var allBefore []int
	for _, ids := range beforeIDs {
		allBefore = append(allBefore, ids...)
	}
	close(barrier)

	results := make([]callerResult, nCallers)
	var cwg sync.WaitGroup
	selfCaller := single && shape == 3
	for k := 0; k < nCallers; k++ {
		k := k
		graceful := r.Intn(3) != 0
		if single && shape <= 2 {
			graceful = true
		}
		target := pid
		if parentMode && k%2 == 1 {
			target = childPID
		}
		own := 1 + r.Intn(5)
		jitter := time.Duration(r.Intn(200)) * time.Microsecond
		cwg.Add(1)
		go func() {
			defer cwg.Done()
			cr := &results[k]
			time.Sleep(jitter)
			var ownIDs []int
			var ctx context.Context
			if selfCaller {
				cr.kind = "self-poison"
				for i := 0; i < own; i++ {
					id := nextID()
					e.Send(pid, &concMsg{ID: id})
					ownIDs = append(ownIDs, id)
				}
				e.Send(pid, &concMsg{ID: nextID(), Self: true})
				if !waitFor(wd, func() bool { return st.selfCtx.Load() != nil }) {
					return
				}
				ctx = st.selfCtx.Load().(context.Context)
			} else {
				for i := 0; i < own; i++ {
					id := nextID()
					e.Send(target, &concMsg{ID: id})
					ownIDs = append(ownIDs, id)
				}
				if graceful {
					cr.kind = "poison"
					ctx = e.Poison(target)
				} else {
					cr.kind = "stop"
					ctx = e.Stop(target)
				}
				select {
				case <-ctx.Done():
					cr.doneAtReturn = true
				default:
				}
			}
			tst := st
			if target == childPID && parentMode {
				tst = childSt
				cr.kind += "(child)"
			}
			select {
			case <-ctx.Done():
				cr.done = true
				cr.stoppedDone = atomic.LoadInt32(&tst.stoppedDone) == 1
				if target == childPID && parentMode {
					cr.registered = e.Registry.GetPID("conc/p/kid", "k") != nil
				} else {
					cr.registered = e.Registry.GetPID("conc", "p") != nil
				}
				if single && graceful {
					for _, id := range append(append([]int(nil), allBefore...), ownIDs...) {
						if !st.wasHandled(id) {
							cr.missing = append(cr.missing, id)
						}
					}
				}
			case <-time.After(wd):
			}
		}()
	}
	cwg.Wait()
	close(stopSending)
	swg.Wait()

	res.Desc = fmt.Sprintf("conc shape=%d inbox=%d senders=%dx%d callers=%d slowStoppedUs=%d", shape, inbox, nSenders, perSender, nCallers, st.slowUs)
	kinds := ""
	for _, cr := range results {
		kinds += cr.kind + ","
	}
	res.Sig = sigHash("conc", shape, inbox > 1, nSenders > 0, kinds)
	stoppedEvent := func(p *actor.PID) bool {
		return mon.count(func(x any) bool { ev, ok := x.(actor.ActorStoppedEvent); return ok && ev.PID.Equals(p) }) > 0
	}
	for k, cr := range results {
		tgt := pid
		if parentMode && k%2 == 1 {
			tgt = childPID
		}
		if !cr.done {
			// decide on state
			mon.flush(e, wd)
			if stoppedEvent(tgt) && e.Registry.GetPID("conc", "p") == nil {
				res.violate("caller %d (%s): its context never became done although the target has stopped (ActorStoppedEvent seen, unregistered): nothing can signal it any more", k, cr.kind)
			} else {
				res.inconclusive("caller %d (%s): context not done within the watchdog and the target has not been seen stopping", k, cr.kind)
			}
			continue
		}
		res.count("contexts_done", 1)
		if !cr.stoppedDone {
			res.violate("caller %d (%s): context became done before the target had handled Stopped (already done when the call returned: %v)", k, cr.kind, cr.doneAtReturn)
		}
		if cr.doneAtReturn {
			res.count("requests_answered_at_once", 1)
		}
		if cr.registered {
			res.violate("caller %d (%s): context became done while the target was still registered", k, cr.kind)
		}
		if len(cr.missing) > 0 {
			res.violate("caller %d (%s): context done but %d message(s) whose send happened-before the Poison call were not handled, e.g. id %d", k, cr.kind, len(cr.missing), cr.missing[0])
		}
	}
	// afterwards: exactly one Stopped, nothing after it, pills invisible, later sends dead-letter once
	check := func(name string, s *concState, used bool) {
		if !used {
			return
		}
		if n := atomic.LoadInt32(&s.stoppedCount); n != 1 {
			res.violate("%s received Stopped %d times", name, n)
		}
		if n := atomic.LoadInt32(&s.afterStopped); n != 0 {
			res.violate("%s: %d deliveries after Stopped", name, n)
		}
		if n := atomic.LoadInt32(&s.leaks); n != 0 {
			res.violate("%s: %d deliveries of something that is not a user message (poison pill visible to Receive?)", name, n)
		}
		s.mu.Lock()
		for id, n := range s.handled {
			if n > 1 {
				res.violate("%s: message %d handled %d times", name, id, n)
				break
			}
		}
		s.mu.Unlock()
	}
	allDone := true
	for _, cr := range results {
		allDone = allDone && cr.done
	}
	if allDone {
		targetEnded := !parentMode || nCallers >= 1 // caller 0 always addresses the parent
		if targetEnded {
			probe := &concMsg{ID: -1}
			e.Send(pid, probe)
			mon.flush(e, wd)
			time.Sleep(time.Millisecond)
			mon.flush(e, wd)
			dl := mon.count(func(x any) bool { ev, ok := x.(actor.DeadLetterEvent); return ok && ev.Message == any(probe) })
			if dl != 1 {
				res.violate("a message sent after every context was done produced %d DeadLetterEvents, expected exactly 1", dl)
			}
			if st.wasHandled(-1) {
				res.violate("a message sent after every context was done was delivered")
			}
			check("actor", st, true)
			check("child", childSt, parentMode && atomic.LoadInt32(&childSt.started) > 0)
		}
	}
	if res.Verdict == vViolated {
		res.Sample = map[string]any{"scenario": res.Desc, "callers": fmt.Sprintf("%+v", results)}
	} else if c.n < 2 {
		res.Sample = map[string]any{"scenario": res.Desc, "callers": fmt.Sprintf("%+v", results), "messages_handled": len(st.order)}
	}
	return res
}

type parentOf struct {
	concActor
	spawn func(c *actor.Context)
}

func (p *parentOf) Receive(c *actor.Context) {
	if _, ok := c.Message().(actor.Started); ok {
		p.spawn(c)
	}
	p.concActor.Receive(c)
}

// c07Known reproduces the open finding deterministically and verifies that the
// failure has exactly the listed signature.
// c07Nobody: stop requests for PIDs nobody answers to - never spawned, already stopped, naming another
// node (on an engine without and with a remote), nil. Every one of the returned contexts becomes done, and nobody is stopped by them.
func c07Nobody(c *caseCtx) (res caseResult) {
	wd := watchdog(c.tier)
	var e *actor.Engine
	var err error
	withRemote := c.n%2 == 1
	if withRemote {
		e, err = actor.NewEngine(actor.NewEngineConfig().WithRemote(&recRemoter{addr: "127.0.0.1:4000", got: map[[2]string][]esEvent{}}))
	} else {
		e, err = actor.NewEngine(actor.NewEngineConfig())
	}
	if err != nil {
		res.inconclusive("engine setup: %v", err)
		return
	}
	st := newConcState()
	live := e.Spawn(func() actor.Receiver { return &concActor{st: st} }, "conc", actor.WithID("live"))
	gone := e.SpawnFunc(func(*actor.Context) {}, "conc", actor.WithID("gone"))
	select {
	case <-e.Poison(gone).Done():
	case <-time.After(wd):
		res.inconclusive("actor did not stop")
		return
	}
	targets := map[string]*actor.PID{
		"never spawned":   actor.NewPID(e.Address(), "conc/never"),
		"already stopped": gone,
		"on another node": actor.NewPID("10.9.8.7:4000", "worker/1"),
		"nil":             nil,
	}
	res.Desc = fmt.Sprintf("directed: stop requests for PIDs nobody answers to (engine with a remote: %v)", withRemote)
	for what, pid := range targets {
		for _, graceful := range []bool{true, false} {
			var ctx context.Context
			if graceful {
				ctx = e.Poison(pid)
			} else {
				ctx = e.Stop(pid)
			}
			select {
			case <-ctx.Done():
			case <-time.After(wd / 4):
				if rest, where := atRest(3 * time.Second); rest {
					res.violate("the context of a stop request (graceful=%v) for a PID %s (%v) never became done: the process is at rest (%s) (%s)", graceful, what, pid, where, res.Desc)
				} else {
					res.inconclusive("context for a PID %s not done (%s)", what, where)
				}
				return
			}
		}
	}
	// the live local actor was none of their business
	probe := make(chan struct{})
	e.Send(live, &concMsg{ID: 1})
	go func() {
		waitFor(wd, func() bool { st.mu.Lock(); defer st.mu.Unlock(); return st.handled[1] > 0 })
		close(probe)
	}()
	<-probe
	st.mu.Lock()
	h := st.handled[1]
	st.mu.Unlock()
	if h == 0 || atomic.LoadInt32(&st.stoppedCount) > 0 {
		res.violate("stop requests for PIDs nobody answers to stopped a bystander (handled=%d, Stopped=%d)", h, atomic.LoadInt32(&st.stoppedCount))
	}
	res.count("stop_requests_for_nobody", int64(2*len(targets)))
	res.Sig = sigHash("nobody", withRemote)
	return res
}

func c07Known(c *caseCtx) (res caseResult) {
	if c.n%4 >= 2 {
		return c07Nobody(c)
	}
	wd := watchdog(c.tier)
	e, _, _, err := newMonitoredEngine()
	if err != nil {
		res.inconclusive("engine setup: %v", err)
		return
	}
	st := newConcState()
	st.stopGate = make(chan struct{})
	st.stopEntered = make(chan struct{})
	pid := e.Spawn(func() actor.Receiver { return &concActor{st: st} }, "conc", actor.WithID("p"))
	first := e.Poison(pid)
	select {
	case <-st.stopEntered:
	case <-time.After(wd):
		res.inconclusive("the Stopped handler was not entered")
		return
	}
	// the target is now inside its Stopped handler (held). A second request:
	var second context.Context
	if c.n%2 == 0 {
		second = e.Poison(pid)
	} else {
		second = e.Stop(pid)
	}
	doneEarly := false
	select {
	case <-second.Done():
		doneEarly = true
	default:
	}
	select {
	case <-first.Done():
		res.violate("the FIRST context became done while the Stopped handler was still running")
	default:
	}
	close(st.stopGate)
	for _, ctx := range []context.Context{first, second} {
		select {
		case <-ctx.Done():
		case <-time.After(wd):
			res.neverOrNotYet("a context did not become done after the Stopped handler finished")
		}
	}
	res.Desc = "directed: second stop request while the target is held inside its Stopped handler"
	res.Sig = sigHash("known", c.n%2)
	res.Sample = map[string]any{"scenario": res.Desc, "second_context_done_before_Stopped_finished": doneEarly}
	if res.Verdict == vViolated {
		return
	}
	if doneEarly {
		res.violate("a stop request issued while the target is inside its Stopped handler returned a context that is already done, although Stopped has not been handled yet")
	}
	return
}
