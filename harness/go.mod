module verifharness

go 1.22.12

require (
	github.com/anishathalye/porcupine v1.3.0
	github.com/anthdm/hollywood v0.0.0
)

replace github.com/anthdm/hollywood => /repo
