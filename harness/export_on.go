//go:build verifexport

package main

import (
	"net"

	"github.com/anthdm/hollywood/actor"
	"github.com/anthdm/hollywood/remote"
)

const exportAvailable = true

type wireDeliver = remote.VerifDeliver

func writerInvoke(e *actor.Engine, addr string, stream remote.DRPCRemote_ReceiveStream, rawconn net.Conn, batch []wireDeliver) {
	remote.VerifWriterInvoke(e, addr, stream, rawconn, batch)
}

func readerReceive(e *actor.Engine, stream remote.DRPCRemote_ReceiveStream) error {
	return remote.VerifReaderReceive(e, stream)
}

func unwrapDeliver(msg any) (wireDeliver, bool) { return remote.VerifUnwrapDeliver(msg) }

func sharedReader(e *actor.Engine) func(stream remote.DRPCRemote_ReceiveStream) error {
	return remote.VerifSharedReader(e)
}
