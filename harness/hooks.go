package main

import (
	"github.com/anthdm/hollywood/verifshim/vhook"
)

// userPerturb is a perturbation point inside harness receivers / processers:
// a Receive may take any amount of time, which is what makes a second worker
// visible as an overlap.
func userPerturb() { vhook.Perturb(vhook.OpUser) }
