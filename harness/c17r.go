package main

// C17, mode "tcp-react": a send made upon the RemoteUnreachableEvent is a later send.
//
// The peer address is first served by a bare TCP listener - a peer that accepts
// the connection and then goes away. Before that connection is dropped the real
// peer is brought up on the same address. K subscribers of the event stream
// (inline Processers and ordinary actors) react to the RemoteUnreachableEvent by
// sending the peer a message each: every one of those sends happens after the
// event, the peer is up, so each must make (or join) a fresh attempt and arrive.

import (
	"fmt"
	"net"
	"strings"
	"sync/atomic"
	"time"

	"github.com/anthdm/hollywood/actor"
	"github.com/anthdm/hollywood/remote"
)

type reactProc struct {
	pid    *actor.PID
	eng    *actor.Engine
	addr   string
	target *actor.PID
	tag    string
	fired  int32
	sent   int32 // the reacting send has returned
}

func (r *reactProc) Start()                  {}
func (r *reactProc) Shutdown()               {}
func (r *reactProc) Invoke([]actor.Envelope) {}
func (r *reactProc) PID() *actor.PID         { return r.pid }
func (r *reactProc) Send(_ *actor.PID, msg any, _ *actor.PID) {
	if ev, ok := msg.(actor.RemoteUnreachableEvent); ok && ev.ListenAddr == r.addr && atomic.CompareAndSwapInt32(&r.fired, 0, 1) {
		r.eng.Send(r.target, &remote.TestMessage{Data: []byte(r.tag)})
		atomic.StoreInt32(&r.sent, 1)
	}
}

func (r *reactProc) Receive(c *actor.Context) { r.Send(nil, c.Message(), nil) }

func c17React(c *caseCtx) (res caseResult) {
	r := c.rng
	wd := watchdog(c.tier)
	addrs := freeAddrs(c, 3)
	a1, a2 := addrs[0], addrs[1]
	ln, err := net.Listen("tcp", a2)
	if err != nil {
		res.inconclusive("listen: %v", err)
		return
	}
	n1, err := c17StartNode(a1, 1, nil)
	if err != nil {
		ln.Close()
		res.inconclusive("node 1: %v", err)
		return
	}
	defer func() { n1.rem.Stop().Wait() }()
	K := pick(r, 1, 4, 16, 48, 100)
	target := actor.NewPID(a2, "t/0")
	var reactors []*reactProc
	inline := 0
	for i := 0; i < K; i++ {
		rp := &reactProc{eng: n1.eng, addr: a2, target: target, tag: fmt.Sprintf("retry-%d", i)}
		if r.Intn(3) != 0 {
			rp.pid = actor.NewPID(a1, fmt.Sprintf("reactor/%d", i))
			n1.eng.SpawnProc(rp)
			inline++
		} else {
			rp.pid = n1.eng.Spawn(func() actor.Receiver { return rp }, "reactor", actor.WithID(fmt.Sprint(i)))
		}
		n1.eng.Subscribe(rp.pid)
		reactors = append(reactors, rp)
	}
	n1.mon.flush(n1.eng, wd)
	res.Desc = fmt.Sprintf("tcp-react: %d subscribers (%d inline) re-send on RemoteUnreachableEvent, peer already back up", K, inline)
	// the connection to the peer that is about to go away
	n1.eng.Send(target, &remote.TestMessage{Data: []byte("first")})
	type acc struct {
		conn net.Conn
		err  error
	}
	ch := make(chan acc, 1)
	go func() { cn, err := ln.Accept(); ch <- acc{cn, err} }()
	var conn net.Conn
	select {
	case a := <-ch:
		if a.err != nil {
			ln.Close()
			res.inconclusive("accept: %v", a.err)
			return
		}
		conn = a.conn
	case <-time.After(wd):
		ln.Close()
		res.inconclusive("the node never connected to the peer address")
		return
	}
	ln.Close()
	// the real peer comes up on the same address ...
	n2, err := c17StartNode(a2, 1, nil)
	if err != nil {
		conn.Close()
		res.inconclusive("node 2: %v", err)
		return
	}
	defer func() { n2.rem.Stop().Wait() }()
	if !waitFor(wd, func() bool {
		cn, err := net.DialTimeout("tcp", a2, time.Second)
		if err == nil {
			cn.Close()
		}
		return err == nil
	}) {
		conn.Close()
		res.inconclusive("the restarted peer does not accept connections")
		return
	}
	// ... and only now the old connection breaks
	conn.Close()
	delivered := func() map[string]int {
		m := map[string]int{}
		for _, x := range n2.recvs[0].snapshot() {
			if strings.HasPrefix(x.data(), "retry-") {
				m[x.data()]++
			}
		}
		return m
	}
	prog := func() int64 { return int64(len(delivered())) }
	fin, _ := settle(wd, 15*time.Second, func() bool { return len(delivered()) == K }, prog)
	n1.mon.flush(n1.eng, wd)
	un := unreachableCount(n1.mon, a2)
	fired := 0
	for _, rp := range reactors {
		if atomic.LoadInt32(&rp.fired) == 1 {
			fired++
		}
	}
	if !fin {
		// decide on state: did the re-sent messages surface as dead letters?
		dead := n1.mon.count(func(x any) bool {
			ev, ok := x.(actor.DeadLetterEvent)
			if !ok {
				return false
			}
			msg := ev.Message
			if d, ok := unwrapDeliver(msg); ok {
				msg = d.Msg
			}
			tm, ok := msg.(*remote.TestMessage)
			return ok && strings.HasPrefix(string(tm.Data), "retry-")
		})
		switch {
		case un == 0:
			res.inconclusive("the broken connection was never reported (%s)", res.Desc)
		case dead > 0:
			res.violate("%d of the %d messages sent in reaction to the RemoteUnreachableEvent were dead-lettered although the peer was up and accepting connections: a send after the event must make a fresh connection attempt (%d delivered) (%s)", dead, fired, len(delivered()), res.Desc)
		default:
			// neither delivered nor dead-lettered. A probe sent now, after every reacting send has returned, is
			// ordered behind them towards the same target: if it arrives and they have not, they are lost
			allSent := waitFor(wd/3, func() bool {
				for _, rp := range reactors {
					if atomic.LoadInt32(&rp.fired) == 1 && atomic.LoadInt32(&rp.sent) == 0 {
						return false
					}
				}
				return true
			})
			n1.eng.Send(target, &remote.TestMessage{Data: []byte("probe-after")})
			probed := waitFor(wd, func() bool {
				for _, x := range n2.recvs[0].snapshot() {
					if x.data() == "probe-after" {
						return true
					}
				}
				return false
			})
			if allSent && probed && len(delivered()) < fired {
				res.violate("%d messages were sent in reaction to the RemoteUnreachableEvent while the peer was up; %d of them arrived, the others neither arrived nor became dead letters, and a message sent after all of them to the same target has arrived: they are lost (a send after the event must make a fresh attempt) (%s)", fired, len(delivered()), res.Desc)
			} else {
				res.inconclusive("%d of %d re-sent messages delivered, none dead-lettered, probe delivered=%v (%s)", len(delivered()), fired, probed, res.Desc)
			}
		}
		return
	}
	for tag, n := range delivered() {
		if n != 1 {
			res.violate("re-sent message %s delivered %d times", tag, n)
		}
	}
	res.count("react_subscribers", int64(K))
	res.count("resent_delivered", int64(K))
	res.Sig = sigHash("react", K, inline)
	if c.n < 1 || res.Verdict == vViolated {
		res.Sample = map[string]any{"scenario": res.Desc, "unreachable_events": un}
	}
	return res
}
