package main

// C15 — the batched wire encoding round-trips every message to its own target
// and sender; an unserialisable message is dropped on its own.
//
//   internal  the real streamWriter.Invoke on a generated batch with a capturing
//             fake stream -> the marshalled bytes -> the real Envelope.UnmarshalVT
//             -> the real streamReader.Receive on a fake stream -> recording
//             Processers in the receiving engine's registry
//   e2e       the same generated traffic through two real engines over loopback TCP
//             (public API only; batches form by timing), in a child process inside a
//             private network namespace

import (
	"fmt"
	"sort"
	"strings"
	"sync"
	"time"

	"github.com/anthdm/hollywood/actor"
	"github.com/anthdm/hollywood/remote"
)

func init() {
	register(&prop{
		id:    "C15",
		level: "exploration",
		rule: "PRNG batches of 1-64 messages over pools of 2-8 targets (including a pair that differs only in how address and id split), senders {none, a PID, an equal copy of it, a split-ambiguous pair}, payload types {remote.TestMessage, actor.PID, actor.Ping, cluster.Member, cluster.Activation, messages that encode to zero bytes, plain protobuf types without vtproto methods (Empty, StringValue, Duration)}, split into 1-4 envelopes over one connection, and unserialisable payloads {non-proto value, invalid UTF-8 in a proto3 string, nil} at PRNG positions; " +
			"oracle: delivered list == input list minus the unserialisable items, same order, each at the addressed id, payload proto.Equal, sender equal or absent exactly as given, nothing else delivered, no panic. Non-trivial = the batch mixes >=2 targets or senders, or holds an unserialisable item; distinct by (mode, batch length, pools used, positions of unserialisable items)",
		assumptions: []string{
			"internal mode needs the verif-only export file for package remote (supplied through the build overlay); if it no longer compiles against a refactored tree the mode reports itself unavailable and the end-to-end mode alone decides",
			"typed nil pointers as payloads are not generated (whether they count as serialisable is not fixed by the statement)",
		},
		modes: func(tier string, seed int64) []modeSpec {
			a, b := 3200, 64
			if tier == "thorough" {
				a, b = 250000, 1600
			}
			return []modeSpec{
				{name: "internal", n: a, perChild: a / 16, timeout: 20 * time.Minute},
				{name: "e2e", n: b, perChild: b / 8, parallel: 8, netns: true, timeout: 20 * time.Minute},
			}
		},
		run: func(c *caseCtx) caseResult {
			if c.mode == "internal" {
				return c15Internal(c)
			}
			return c15E2E(c)
		},
		minDistinct: 40,
	})
}

type wireItem struct {
	target *actor.PID
	sender *actor.PID
	msg    any
	ok     bool // serialisable
	kind   payloadKind
}

func c15Batch(c *caseCtx, addr string, maxLen int) (items []wireItem, ids []string, desc string) {
	r := c.rng
	nT := 1 + r.Intn(6)
	var targets []*actor.PID
	for i := 0; i < nT; i++ {
		targets = append(targets, actor.NewPID(addr, fmt.Sprintf("t/%d", i)))
	}
	ambiguousT := r.Intn(2) == 0
	if ambiguousT {
		// same address (the receiving node), ids that glue together differently with the address
		targets = append(targets, actor.NewPID(addr, "1/x"), actor.NewPID(addr, "1/x")) // equal copies
		// (all targets of a batch carry the address of the node the batch goes to - that is how the router
		// fills a writer's inbox; split-ambiguous PIDs are therefore a matter of the sender table, below)
		targets = append(targets, actor.NewPID(addr, "1/y"), actor.NewPID(addr, "p/1/x"), actor.NewPID(addr, "1/x"))
	}
	seen := map[string]bool{}
	for _, t := range targets {
		if !seen[t.ID] {
			seen[t.ID] = true
			ids = append(ids, t.ID)
		}
	}
	base := actor.NewPID("10.0.0.1:4000", "s/1")
	senders := []*actor.PID{nil, base, actor.NewPID("10.0.0.1:4000", "s/1"), actor.NewPID("10.0.0.1:4000", "s/2"),
		actor.NewPID("ab", "c"), actor.NewPID("a", "bc"), nil, actor.NewPID("", "noaddr"), actor.NewPID("onlyaddr", ""),
		actor.NewPID("10.0.0.1:4000", "s/1/q"), actor.NewPID("10.0.0.1:4000/s", "1/q"),
		// the same ids on other nodes (forwarded senders): an id alone does not name a PID
		actor.NewPID("10.0.0.2:4000", "s/1"), actor.NewPID("10.0.0.1:4001", "s/2"), actor.NewPID("10.0.0.2:4000", "noaddr")}
	sPool := 1 + r.Intn(len(senders))
	n := 1 + r.Intn(maxLen)
	big := 0
	if maxLen <= 64 {
		switch r.Intn(40) {
		case 0:
			n = 1025 + r.Intn(2200) // longer than the writer's nominal batch size
		case 1:
			big = 2 + r.Intn(3) // a few payloads of more than a megabyte: the envelope exceeds the default 4 MiB read buffer's comfort zone
		}
	}
	pBad := pick(r, 0, 0, 10, 30)
	nBad := 0
	for i := 0; i < n; i++ {
		k := payloadKind(r.Intn(int(pkNonProto)))
		if r.Intn(100) < pBad {
			k = pkNonProto + payloadKind(r.Intn(3))
		}
		msg, ok := makePayload(k, i+1)
		if !ok {
			nBad++
		}
		if big > 0 && i%5 == 1 && i/5 < big {
			msg, ok, k = &remote.TestMessage{Data: make([]byte, 1100*1024+i)}, true, pkTest
		}
		items = append(items, wireItem{target: targets[r.Intn(len(targets))], sender: senders[r.Intn(sPool)], msg: msg, ok: ok, kind: k})
	}
	desc = fmt.Sprintf("batch len=%d targets=%d ambiguousTargets=%v senderPool=%d unserialisable=%d bigPayloads=%d", n, nT, ambiguousT, sPool, nBad, big)
	return
}

func c15Compare(res *caseResult, items []wireItem, got []delivery) {
	var exp []wireItem
	for _, it := range items {
		if it.ok {
			exp = append(exp, it)
		}
	}
	if len(got) != len(exp) {
		res.violate("%d messages delivered, %d serialisable messages were sent (%d unserialisable)", len(got), len(exp), len(items)-len(exp))
	}
	for i := 0; i < len(got) && i < len(exp); i++ {
		g, x := got[i], exp[i]
		if g.TargetID != x.target.ID {
			res.violate("delivery #%d went to %q, the message at that position was addressed to %q", i, g.TargetID, x.target.ID)
			break
		}
		if !protoEqualAny(g.Msg, x.msg) {
			res.violate("delivery #%d to %q: payload %v (%T) differs from the original %v (%T)", i, g.TargetID, g.Msg, g.Msg, x.msg, x.msg)
			break
		}
		if !samePID(g.Sender, x.sender) {
			res.violate("delivery #%d to %q arrived with sender %v, it was sent with %v", i, g.TargetID, g.Sender, x.sender)
			break
		}
	}
}

func c15Internal(c *caseCtx) (res caseResult) {
	if !exportAvailable {
		res.count("internal_mode_unavailable", 1)
		res.Desc = "internal mode unavailable: the remote export shim does not compile against this tree"
		return
	}
	if c.n%20 == 19 {
		return c15InternalConc(c, false)
	}
	e1, err := actor.NewEngine(actor.NewEngineConfig())
	e2, err2 := actor.NewEngine(actor.NewEngineConfig())
	if err != nil || err2 != nil {
		res.inconclusive("engine: %v %v", err, err2)
		return
	}
	items, ids, desc := c15Batch(c, "local", 64)
	res.Desc = "internal " + desc
	batch := make([]wireDeliver, len(items))
	for i, it := range items {
		batch[i] = wireDeliver{Target: it.target, Sender: it.sender, Msg: it.msg}
	}
	cs := &captureStream{}
	// the messages leave in 1-4 consecutive batches (one envelope each) over the same connection: what the
	// reader keeps from one envelope must not show in the next
	cuts := []int{0}
	if len(batch) > 1 && c.rng.Intn(2) == 0 {
		for k := c.rng.Intn(3) + 1; k > 0; k-- {
			cuts = append(cuts, 1+c.rng.Intn(len(batch)-1))
		}
		sort.Ints(cuts)
	}
	cuts = append(cuts, len(batch))
	res.Desc += fmt.Sprintf(" envelopes<=%d", len(cuts)-1)
	for k := 0; k+1 < len(cuts); k++ {
		part := batch[cuts[k]:cuts[k+1]]
		if len(part) == 0 {
			continue
		}
		if p := catchPanic(func() { writerInvoke(e1, "local", cs, fakeConn{}, part) }); p != "" {
			res.violate("the stream writer panicked on the batch (on a node this kills the process): %s", p)
			res.Sample = map[string]any{"scenario": res.Desc}
			return
		}
	}
	lg := registerTargets(e2, "local", ids)
	var envs []*remote.Envelope
	wireBytes := 0
	for _, env := range cs.envs {
		b, err := env.MarshalVT()
		if err != nil {
			res.violate("the envelope built by the writer cannot be marshalled: %v", err)
			return
		}
		wireBytes += len(b)
		dec := &remote.Envelope{}
		if err := dec.UnmarshalVT(b); err != nil {
			res.violate("the envelope built by the writer cannot be decoded again: %v", err)
			return
		}
		envs = append(envs, dec)
	}
	var rerr error
	if p := catchPanic(func() { rerr = readerReceive(e2, &feedStream{envs: envs}) }); p != "" {
		res.violate("the stream reader panicked on an envelope produced by the stream writer: %s", p)
		return
	}
	if rerr != nil {
		res.violate("the stream reader rejected an envelope produced by the stream writer: %v", rerr)
	}
	c15Compare(&res, items, lg.snapshot())
	res.count("messages", int64(len(items)))
	res.count("wire_bytes", int64(wireBytes))
	nBad := 0
	tset, sset := map[string]bool{}, map[string]bool{}
	var badPos []int
	for i, it := range items {
		if !it.ok {
			nBad++
			badPos = append(badPos, i)
		}
		tset[pidStr(it.target)] = true
		sset[pidStr(it.sender)] = true
	}
	res.count("unserialisable_items", int64(nBad))
	if len(tset) > 1 || len(sset) > 1 || nBad > 0 {
		res.Sig = sigHash("internal", len(items), len(tset), len(sset), badPos)
	}
	if c.n < 2 || res.Verdict == vViolated {
		res.Sample = map[string]any{"scenario": res.Desc, "items": describeItems(items), "delivered": describeDeliveries(lg.snapshot())}
	}
	return res
}

func catchPanic(f func()) (p string) {
	defer func() {
		if v := recover(); v != nil {
			p = fmt.Sprint(v)
		}
	}()
	f()
	return ""
}

func describeItems(items []wireItem) []string {
	var out []string
	for i, it := range items {
		if i >= 70 {
			break
		}
		out = append(out, fmt.Sprintf("#%d -> %s from %s : %T serialisable=%v", i, pidStr(it.target), pidStr(it.sender), it.msg, it.ok))
	}
	return out
}

func describeDeliveries(ds []delivery) []string {
	var out []string
	for i, d := range ds {
		if i >= 70 {
			break
		}
		out = append(out, fmt.Sprintf("#%d at %s from %s : %T", i, d.TargetID, pidStr(d.Sender), d.Msg))
	}
	return out
}

// ---- end to end -----------------------------------------------------------

func freeAddrs(c *caseCtx, n int) []string {
	// inside the private network namespace every port is ours; derive them from the case number
	base := 10000 + (c.n%2500)*8 // (below the ephemeral port range)
	var out []string
	for i := 0; i < n; i++ {
		out = append(out, fmt.Sprintf("127.0.0.1:%d", base+i))
	}
	return out
}

func c15E2E(c *caseCtx) (res caseResult) {
	wd := watchdog(c.tier)
	addrs := freeAddrs(c, 2)
	r1 := remote.New(addrs[0], remote.NewConfig())
	r2 := remote.New(addrs[1], remote.NewConfig())
	e1, err := actor.NewEngine(actor.NewEngineConfig().WithRemote(r1))
	e2, err2 := actor.NewEngine(actor.NewEngineConfig().WithRemote(r2))
	if err != nil || err2 != nil {
		res.inconclusive("engines: %v %v", err, err2)
		return
	}
	defer func() {
		r1.Stop().Wait()
		r2.Stop().Wait()
	}()
	items, ids, desc := c15Batch(c, addrs[1], 200)
	// over a real connection every target must live on the peer: ambiguous-address targets are re-addressed
	for i := range items {
		if items[i].target.Address != addrs[1] {
			items[i].target = actor.NewPID(addrs[1], items[i].target.ID)
		}
	}
	res.Desc = "e2e " + desc
	lg := registerTargets(e2, addrs[1], append(ids, "marker"))
	for _, it := range items {
		e1.SendWithSender(it.target, it.msg, it.sender)
	}
	marker := &remote.TestMessage{Data: []byte("verif-final-marker")}
	e1.Send(actor.NewPID(addrs[1], "marker"), marker)
	ok := waitFor(wd, func() bool {
		for _, d := range lg.snapshot() {
			if d.TargetID == "marker" {
				return true
			}
		}
		return false
	})
	if !ok {
		res.inconclusive("the final marker did not arrive over the connection within the watchdog (%d deliveries so far)", len(lg.snapshot()))
		return
	}
	var got []delivery
	for _, d := range lg.snapshot() {
		if d.TargetID != "marker" {
			got = append(got, d)
		}
	}
	c15Compare(&res, items, got)
	res.count("messages", int64(len(items)))
	res.count("e2e_cases", 1)
	res.Sig = sigHash("e2e", len(items), desc)
	if c.n < 1 || res.Verdict == vViolated {
		res.Sample = map[string]any{"scenario": res.Desc, "items": describeItems(items), "delivered": describeDeliveries(got)}
	}
	return res
}

// c15InternalConc: K peers send at the same time. Remote registers ONE stream reader for all
// inbound connections and drpc calls it once per connection, concurrently; what the reader
// keeps while it decodes one connection's envelopes must not leak into another's. Each
// stream has its own targets, so its deliveries can be judged on their own.
func c15InternalConc(c *caseCtx, hostile bool) (res caseResult) {
	e1, err := actor.NewEngine(actor.NewEngineConfig())
	e2, err2 := actor.NewEngine(actor.NewEngineConfig())
	if err != nil || err2 != nil {
		res.inconclusive("engine: %v %v", err, err2)
		return
	}
	K := 2 + c.rng.Intn(3)
	type strm struct {
		items []wireItem
		envs  []*remote.Envelope
	}
	var streams []strm
	var allIDs []string
	for k := 0; k < K; k++ {
		items, _, _ := c15Batch(c, "local", 48)
		// several envelopes per stream, targets private to the stream
		for i := range items {
			items[i].target = actor.NewPID(items[i].target.Address, fmt.Sprintf("s%d-%s", k, items[i].target.ID))
		}
		seen := map[string]bool{}
		for _, it := range items {
			if !seen[it.target.ID] {
				seen[it.target.ID] = true
				allIDs = append(allIDs, it.target.ID)
			}
		}
		cs := &captureStream{}
		rounds := 20 + c.rng.Intn(60) // the same batch again and again: the connections stay busy side by side
		batch := make([]wireDeliver, len(items))
		for i, it := range items {
			batch[i] = wireDeliver{Target: it.target, Sender: it.sender, Msg: it.msg}
		}
		for rd := 0; rd < rounds; rd++ {
			if p := catchPanic(func() { writerInvoke(e1, "local", cs, fakeConn{}, batch) }); p != "" {
				res.violate("the stream writer panicked on the batch: %s", p)
				return
			}
		}
		st := strm{}
		for rd := 0; rd < rounds; rd++ {
			st.items = append(st.items, items...)
		}
		for _, env := range cs.envs {
			b, err := env.MarshalVT()
			if err != nil {
				res.violate("the envelope built by the writer cannot be marshalled: %v", err)
				return
			}
			dec := &remote.Envelope{}
			if err := dec.UnmarshalVT(b); err != nil {
				res.violate("the envelope built by the writer cannot be decoded again: %v", err)
				return
			}
			st.envs = append(st.envs, dec)
		}
		streams = append(streams, st)
	}
	if hostile {
		allIDs = append(allIDs, c16TargetIDs...)
	}
	lg := registerTargets(e2, "local", allIDs)
	recv := sharedReader(e2)
	var wg sync.WaitGroup
	hostilePanic := ""
	if hostile {
		// one more peer, a hostile one, is being read by the same reader all the while: bad input ends
		// its own stream at most
		var hs []*remote.Envelope
		for i := 0; i < 200; i++ {
			env, _ := hostileEnvelope(c.rng)
			hs = append(hs, env)
		}
		wg.Add(1)
		go func() {
			defer wg.Done()
			for _, env := range hs {
				if p := catchPanic(func() { _ = recv(&feedStream{envs: []*remote.Envelope{env}}) }); p != "" {
					hostilePanic = p
					return
				}
			}
		}()
	}
	panics := make([]string, K)
	errs := make([]error, K)
	start := make(chan struct{})
	for k := range streams {
		k := k
		wg.Add(1)
		go func() {
			defer wg.Done()
			<-start
			panics[k] = catchPanic(func() { errs[k] = recv(&feedStream{envs: streams[k].envs}) })
		}()
	}
	close(start)
	wg.Wait()
	total := 0
	if hostilePanic != "" {
		res.violate("the stream reader panicked on a hostile envelope while it was reading %d other connections (on a node the process dies): %s", K, hostilePanic)
		return
	}
	for k := range streams {
		if panics[k] != "" {
			res.violate("the stream reader panicked while %d connections were being read side by side (on a node the process dies): %s", K, panics[k])
			return
		}
		if errs[k] != nil {
			res.violate("the stream reader rejected an envelope produced by the stream writer while %d connections were being read side by side: %v", K, errs[k])
		}
		var got []delivery
		prefix := fmt.Sprintf("s%d-", k)
		for _, d := range lg.snapshot() {
			if strings.HasPrefix(d.TargetID, prefix) {
				got = append(got, d)
			}
		}
		before := res.Verdict
		c15Compare(&res, streams[k].items, got)
		if res.Verdict == vViolated && before != vViolated {
			res.Detail += fmt.Sprintf(" (connection %d of %d read side by side by one stream reader)", k, K)
		}
		total += len(streams[k].items)
	}
	res.Desc = fmt.Sprintf("internal: %d connections read side by side by one reader, %d messages, hostile peer alongside=%v", K, total, hostile)
	res.count("messages", int64(total))
	res.count("concurrent_streams", int64(K))
	res.Sig = sigHash("internal-conc", K, total/500, hostile)
	return res
}
