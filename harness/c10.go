package main

// C10 — one live actor per id; duplicate spawns change nothing.
//
//   dup      n concurrent Spawn of one id (plus other ids): exactly one Producer ran,
//            n-1 ActorDuplicateIdEvent, equal PIDs; the incumbent (held on a gate
//            with a backlog) afterwards delivers its backlog once and in order
//   cycle    spawn - stop - respawn k times with senders running: every message lands
//            in exactly one instance or dead-letters, instances have disjoint
//            lifetimes, GetPID follows registration
//   mixed    concurrent Spawn/Stop on a few ids: per id the live intervals
//            (end of Started .. begin of Stopped) never overlap
// dup and mixed also run in the -race build (registry map under contention).

import (
	"context"
	"fmt"
	"math/rand"
	"sync"
	"sync/atomic"
	"time"

	"github.com/anthdm/hollywood/actor"
)

func init() {
	register(&prop{
		id:    "C10",
		level: "exploration",
		rule: "PRNG scenarios with yields injected at the registry's and the child map's lock operations: dup (2-16 concurrent spawners of one id, incumbent with backlog, sequential duplicate SpawnChild), cycle (spawn-stop-respawn 2-6 times with 1-3 senders), mixed (4-12 goroutines spawning/stopping 1-3 ids); " +
			"monitors: Producer invocation count per id, ActorDuplicateIdEvent count, PIDs returned, per-instance receive logs, live intervals from a global sequence counter, GetPID observations. Non-trivial = >=2 contenders for one id; distinct by scenario parameters",
		assumptions: []string{
			"an instance counts as live from the end of its Started handler to the begin of its Stopped handler (a successor may legitimately initialise while the predecessor is still inside Stopped if the implementation unregisters first)",
			"messages sent while an id is being stopped/respawned may dead-letter; they must never be delivered twice or to two instances",
		},
		modes: func(tier string, seed int64) []modeSpec {
			n := 640
			if tier == "thorough" {
				n = 48000
			}
			chaos := []string{"VERIF_HOOK=chaos", "VERIF_HOOK_PROB=35", "VERIF_HOOK_MAXUS=40", "VERIF_HOOK_LOCKUS=150"}
			return []modeSpec{
				{name: "plain", n: n, perChild: n / 16, timeout: 20 * time.Minute, env: chaos},
				{name: "race", n: n / 2, perChild: n / 32, race: true, timeout: 30 * time.Minute, env: chaos},
			}
		},
		run: func(c *caseCtx) caseResult {
			switch c.n % 4 {
			case 0:
				return c10Dup(c)
			case 1:
				return c10Cycle(c)
			case 2:
				if c.n%8 == 2 {
					return c10WhileStopping(c)
				}
				return c10Child(c)
			default:
				return c10Mixed(c)
			}
		},
		minDistinct: 30,
	})
}

var c10Seq int64

type c10Instance struct {
	no           int
	id           string
	startedEnd   int64
	stoppedBegin int64
	got          []int
	mu           sync.Mutex
}

type c10World struct {
	mu        sync.Mutex
	instances map[string][]*c10Instance
	produced  map[string]int
	gate      chan struct{}
	gateIn    chan struct{}
	gateOnce  sync.Once
	slow      int64
}

type c10Msg struct{ ID int }
type c10Gate struct{}

type c10Actor struct {
	w    *c10World
	inst *c10Instance
}

// c10MixedID: the ids of the mixed workload are prefixes of one another - they name different actors.
func c10MixedID(i int) string { return []string{"m1", "m10", "m1/0", "m"}[i%4] }

func (w *c10World) producer(id string) actor.Producer {
	return func() actor.Receiver {
		// a Producer may take its time (it builds the receiver); the id is taken from the moment Spawn was called
		userPerturb()
		if atomic.AddInt64(&w.slow, 1)%3 == 0 {
			time.Sleep(50 * time.Microsecond)
		}
		w.mu.Lock()
		w.produced[id]++
		inst := &c10Instance{no: len(w.instances[id]) + 1, id: id}
		w.instances[id] = append(w.instances[id], inst)
		w.mu.Unlock()
		return &c10Actor{w: w, inst: inst}
	}
}

func (a *c10Actor) Receive(c *actor.Context) {
	switch m := c.Message().(type) {
	case actor.Started:
		userPerturb()
		atomic.StoreInt64(&a.inst.startedEnd, atomic.AddInt64(&c10Seq, 1))
	case actor.Stopped:
		atomic.StoreInt64(&a.inst.stoppedBegin, atomic.AddInt64(&c10Seq, 1))
		userPerturb()
	case c10Gate:
		a.w.gateOnce.Do(func() { close(a.w.gateIn) })
		<-a.w.gate
	case c10Msg:
		a.inst.mu.Lock()
		a.inst.got = append(a.inst.got, m.ID)
		a.inst.mu.Unlock()
	}
}

func newC10World() *c10World {
	return &c10World{instances: map[string][]*c10Instance{}, produced: map[string]int{}, gate: make(chan struct{}), gateIn: make(chan struct{})}
}

func c10Dup(c *caseCtx) (res caseResult) {
	r := c.rng
	wd := watchdog(c.tier)
	e, mon, _, err := newMonitoredEngine()
	if err != nil {
		res.inconclusive("engine: %v", err)
		return
	}
	w := newC10World()
	nSp := 2 + r.Intn(15)
	withIncumbent := r.Intn(2) == 0
	backlog := 0
	id := c10ID(r, "x")
	var incumbent *actor.PID
	if withIncumbent {
		incumbent = e.Spawn(w.producer(id), "dup", actor.WithID(id), actor.WithInboxSize(pick(r, 1, 4, 1024)))
		e.Send(incumbent, c10Gate{})
		select {
		case <-w.gateIn:
		case <-time.After(wd):
			res.inconclusive("incumbent did not reach the gate")
			return
		}
		backlog = 1 + r.Intn(40)
		for i := 0; i < backlog; i++ {
			e.Send(incumbent, c10Msg{ID: i})
		}
	}
	pids := make([]*actor.PID, nSp)
	other := make([]*actor.PID, nSp)
	var wg sync.WaitGroup
	startCh := make(chan struct{})
	for i := 0; i < nSp; i++ {
		i := i
		wg.Add(1)
		go func() {
			defer wg.Done()
			<-startCh
			pids[i] = e.Spawn(w.producer(id), "dup", actor.WithID(id))
			if i%3 == 0 {
				oid := fmt.Sprintf("other%d", i)
				other[i] = e.Spawn(w.producer(oid), "dup", actor.WithID(oid))
			}
		}()
	}
	close(startCh)
	done := make(chan struct{})
	go func() { wg.Wait(); close(done) }()
	select {
	case <-done:
	case <-time.After(wd):
		res.inconclusive("spawners did not return")
		return
	}
	res.Desc = fmt.Sprintf("dup spawners=%d incumbent=%v backlog=%d", nSp, withIncumbent, backlog)
	mon.flush(e, wd)
	w.mu.Lock()
	produced := w.produced[id]
	w.mu.Unlock()
	if produced != 1 {
		res.violate("%d concurrent spawns of one id (incumbent=%v): the Producer ran %d times, expected exactly once", nSp, withIncumbent, produced)
	}
	dups := mon.count(func(x any) bool {
		ev, ok := x.(actor.ActorDuplicateIdEvent)
		return ok && ev.PID.ID == "dup/"+id
	})
	wantDups := nSp - 1
	if withIncumbent {
		wantDups = nSp
	}
	if dups != wantDups {
		res.violate("%d ActorDuplicateIdEvents for the id, expected %d (spawners=%d incumbent=%v)", dups, wantDups, nSp, withIncumbent)
	}
	for i, p := range pids {
		if p == nil || p.ID != "dup/"+id || p.Address != "local" {
			res.violate("spawner %d got PID %v", i, p)
		}
	}
	for i, p := range other {
		if i%3 == 0 {
			oid := fmt.Sprintf("other%d", i)
			w.mu.Lock()
			n := w.produced[oid]
			w.mu.Unlock()
			if n != 1 || p == nil || e.Registry.GetPID("dup", oid) == nil {
				res.violate("an unrelated id spawned concurrently was not started exactly once (producer ran %d times, pid %v)", n, p)
			}
		}
	}
	got := e.Registry.GetPID("dup", id)
	if got == nil {
		res.violate("GetPID returns nil although the id is taken by a live actor")
	}
	target := actor.NewPID("local", "dup/"+id)
	if withIncumbent {
		close(w.gate)
	}
	// the (one) live actor delivers its backlog and further messages exactly once, in order
	extra := 1 + r.Intn(10)
	for i := 0; i < extra; i++ {
		e.Send(target, c10Msg{ID: backlog + i})
	}
	fin := backlog + extra
	inst := func() *c10Instance {
		w.mu.Lock()
		defer w.mu.Unlock()
		if len(w.instances[id]) == 0 {
			return nil
		}
		return w.instances[id][0]
	}()
	if inst == nil {
		res.violate("no instance was produced at all")
		return
	}
	if !waitFor(wd, func() bool { inst.mu.Lock(); defer inst.mu.Unlock(); return len(inst.got) >= fin }) {
		inst.mu.Lock()
		n := len(inst.got)
		inst.mu.Unlock()
		if produced != 1 {
			res.violate("the first instance received %d of %d messages (the others went to a second instance?)", n, fin)
		} else {
			res.inconclusive("the live actor received %d of %d messages within the watchdog", n, fin)
		}
		return
	}
	inst.mu.Lock()
	for i, v := range inst.got {
		if v != i {
			res.violate("the existing actor's pending messages were disturbed: position %d holds message %d", i, v)
			break
		}
	}
	inst.mu.Unlock()
	res.count("spawns", int64(nSp))
	res.count("duplicate_events", int64(dups))
	res.Sig = sigHash("dup", nSp, withIncumbent, backlog > 0)
	if c.n < 3 || res.Verdict == vViolated {
		res.Sample = map[string]any{"scenario": res.Desc, "producer_runs": produced, "duplicate_events": dups}
	}
	e.Poison(target)
	return res
}

func c10Cycle(c *caseCtx) (res caseResult) {
	r := c.rng
	wd := watchdog(c.tier)
	e, mon, _, err := newMonitoredEngine()
	if err != nil {
		res.inconclusive("engine: %v", err)
		return
	}
	w := newC10World()
	id := c10ID(r, "cyc")
	k := 2 + r.Intn(5)
	nS := 1 + r.Intn(3)
	var sent int64
	stop := make(chan struct{})
	var swg sync.WaitGroup
	target := actor.NewPID("local", "cycle/"+id)
	for s := 0; s < nS; s++ {
		swg.Add(1)
		go func() {
			defer swg.Done()
			for {
				select {
				case <-stop:
					return
				default:
				}
				n := atomic.AddInt64(&sent, 1)
				e.Send(target, c10Msg{ID: int(n)})
				if n%16 == 0 {
					time.Sleep(20 * time.Microsecond)
				}
				if n > 200000 {
					return
				}
			}
		}()
	}
	res.Desc = fmt.Sprintf("cycle respawns=%d senders=%d", k, nS)
	for round := 0; round < k; round++ {
		opts := []actor.OptFunc{actor.WithID(id), actor.WithInboxSize(pick(r, 1, 8, 1024))}
		cancelUser := func() {}
		switch r.Intn(4) {
		case 0: // the context handed to the actor at spawn is the user's own business: cancelled before the spawn
			uctx, cancel := context.WithCancel(context.Background())
			cancel()
			opts = append(opts, actor.WithContext(uctx))
		case 1: // ... or while the actor runs
			uctx, cancel := context.WithCancel(context.Background())
			cancelUser = cancel
			opts = append(opts, actor.WithContext(uctx))
		}
		pid := e.Spawn(w.producer(id), "cycle", opts...)
		cancelUser()
		if g := e.Registry.GetPID("cycle", id); g == nil || !g.Equals(pid) {
			res.violate("round %d: GetPID = %v right after Spawn returned %v", round, g, pid)
		}
		time.Sleep(time.Duration(r.Intn(300)) * time.Microsecond)
		if g := e.Registry.GetPID("cycle", id); g == nil {
			res.violate("round %d: GetPID = nil while the actor is registered and no stop has been requested", round)
		}
		var done <-chan struct{}
		switch r.Intn(3) {
		case 0:
			done = e.Poison(pid).Done()
		case 1:
			done = e.Stop(pid).Done()
		default:
			// two stop requests in a row (the actor is busy: both pills end up in its inbox); the caller
			// acts on the second one's context
			e.Poison(pid)
			if r.Intn(2) == 0 {
				done = e.Poison(pid).Done()
			} else {
				done = e.Stop(pid).Done()
			}
		}
		select {
		case <-done:
		case <-time.After(wd):
			close(stop)
			res.inconclusive("round %d: stop context not done", round)
			return
		}
		if g := e.Registry.GetPID("cycle", id); g != nil {
			res.violate("round %d: GetPID = %v after the stop context was done", round, g)
		}
	}
	close(stop)
	swg.Wait()
	mon.flush(e, wd)
	w.mu.Lock()
	insts := append([]*c10Instance(nil), w.instances[id]...)
	produced := w.produced[id]
	w.mu.Unlock()
	if produced != k || len(insts) != k {
		res.violate("%d spawn-stop rounds produced %d instances", k, produced)
	}
	seen := map[int]int{}
	for _, in := range insts {
		in.mu.Lock()
		last := 0
		for _, v := range in.got {
			seen[v]++
			_ = last
		}
		in.mu.Unlock()
	}
	for v, n := range seen {
		if n > 1 {
			res.violate("message %d was delivered %d times (to one or several instances)", v, n)
			break
		}
	}
	// every message was either delivered once or dead-lettered once (sends to a stopping actor may also be dropped with its inbox: not judged)
	dl := map[int]int{}
	for _, x := range mon.snapshot() {
		if ev, ok := x.(actor.DeadLetterEvent); ok {
			if m, ok := ev.Message.(c10Msg); ok {
				dl[m.ID]++
			}
		}
	}
	for v := range seen {
		if dl[v] > 0 {
			res.violate("message %d was delivered AND dead-lettered", v)
			break
		}
	}
	for i := 1; i < len(insts); i++ {
		pb := atomic.LoadInt64(&insts[i-1].stoppedBegin)
		se := atomic.LoadInt64(&insts[i].startedEnd)
		if pb == 0 || se == 0 || se < pb {
			res.violate("instances %d and %d of one id were live at the same time (predecessor began Stopped at seq %d, successor finished Started at seq %d)", i, i+1, pb, se)
		}
	}
	res.count("respawns", int64(k))
	res.count("messages_sent", atomic.LoadInt64(&sent))
	res.count("messages_delivered", int64(len(seen)))
	res.Sig = sigHash("cycle", k, nS)
	if c.n < 3 || res.Verdict == vViolated {
		res.Sample = map[string]any{"scenario": res.Desc, "instances": produced, "delivered": len(seen), "dead_lettered": len(dl)}
	}
	return res
}

func c10Mixed(c *caseCtx) (res caseResult) {
	r := c.rng
	wd := watchdog(c.tier)
	e, _, _, err := newMonitoredEngine()
	if err != nil {
		res.inconclusive("engine: %v", err)
		return
	}
	w := newC10World()
	nIDs := 1 + r.Intn(3)
	nG := 4 + r.Intn(9)
	ops := 3 + r.Intn(10)
	var wg sync.WaitGroup
	startCh := make(chan struct{})
	var nilWhileLive int32
	for g := 0; g < nG; g++ {
		seed := r.Int63()
		wg.Add(1)
		go func() {
			defer wg.Done()
			lr := newRand(seed)
			<-startCh
			for i := 0; i < ops; i++ {
				id := c10MixedID(lr.Intn(nIDs))
				switch lr.Intn(3) {
				case 0, 1:
					e.Spawn(w.producer(id), "mixed", actor.WithID(id))
				default:
					pid := actor.NewPID("local", "mixed/"+id)
					var d <-chan struct{}
					if lr.Intn(2) == 0 {
						d = e.Poison(pid).Done()
					} else {
						d = e.Stop(pid).Done()
					}
					select {
					case <-d:
					case <-time.After(wd):
						atomic.AddInt32(&nilWhileLive, 1000)
					}
				}
			}
		}()
	}
	close(startCh)
	done := make(chan struct{})
	go func() { wg.Wait(); close(done) }()
	select {
	case <-done:
	case <-time.After(2 * wd):
		res.inconclusive("workers did not finish")
		return
	}
	if atomic.LoadInt32(&nilWhileLive) >= 1000 {
		res.inconclusive("a stop context was not done within the watchdog")
		return
	}
	res.Desc = fmt.Sprintf("mixed ids=%d goroutines=%d ops=%d", nIDs, nG, ops)
	// stop what is left, then judge the live intervals
	for i := 0; i < nIDs; i++ {
		select {
		case <-e.Poison(actor.NewPID("local", "mixed/"+c10MixedID(i))).Done():
		case <-time.After(wd):
			res.inconclusive("final stop not done")
			return
		}
	}
	total := 0
	w.mu.Lock()
	for id, insts := range w.instances {
		total += len(insts)
		type iv struct{ a, b int64 }
		var ivs []iv
		for _, in := range insts {
			a, b := atomic.LoadInt64(&in.startedEnd), atomic.LoadInt64(&in.stoppedBegin)
			if a == 0 {
				continue // never got as far as Started
			}
			if b == 0 {
				res.violate("an instance of %s is still live after its id was stopped and the context was done", id)
				continue
			}
			ivs = append(ivs, iv{a, b})
		}
		for i := range ivs {
			for j := i + 1; j < len(ivs); j++ {
				if ivs[i].a < ivs[j].b && ivs[j].a < ivs[i].b {
					res.violate("two instances of id %s were live at the same time: [%d,%d] and [%d,%d] (global sequence numbers)", id, ivs[i].a, ivs[i].b, ivs[j].a, ivs[j].b)
				}
			}
		}
		if e.Registry.GetPID("mixed", id) != nil {
			res.violate("id %s still registered after the final stop", id)
		}
	}
	w.mu.Unlock()
	res.count("instances", int64(total))
	if total >= 2 {
		res.Sig = sigHash("mixed", nIDs, nG, ops, total)
	}
	if c.n < 3 || res.Verdict == vViolated {
		res.Sample = map[string]any{"scenario": res.Desc, "instances": total}
	}
	return res
}

// c10Child: duplicate SpawnChild under one parent, a top-level spawn colliding with
// a child's id, and respawning a child after it stopped.
type c10Parent struct {
	w     *c10World
	cmds  chan func(c *actor.Context)
	ready chan struct{}
}

type c10Do struct{ f func(c *actor.Context) }

func (p *c10Parent) Receive(c *actor.Context) {
	if d, ok := c.Message().(c10Do); ok {
		d.f(c)
	}
}

func c10Child(c *caseCtx) (res caseResult) {
	r := c.rng
	wd := watchdog(c.tier)
	e, mon, _, err := newMonitoredEngine()
	if err != nil {
		res.inconclusive("engine: %v", err)
		return
	}
	w := newC10World()
	parent := e.Spawn(func() actor.Receiver { return &c10Parent{w: w} }, "par", actor.WithID("p"))
	do := func(f func(c *actor.Context)) bool {
		done := make(chan struct{})
		e.Send(parent, c10Do{f: func(c *actor.Context) { f(c); close(done) }})
		select {
		case <-done:
			return true
		case <-time.After(wd):
			return false
		}
	}
	nDup := 1 + r.Intn(4)
	childKey := "par/p/kid/x" // registry id of the child
	var pids []*actor.PID
	var kidsSeen []string
	ok := do(func(c *actor.Context) {
		for i := 0; i <= nDup; i++ {
			pids = append(pids, c.SpawnChild(w.producer(childKey), "kid", actor.WithID("x")))
		}
		for _, k := range c.Children() {
			kidsSeen = append(kidsSeen, k.ID)
		}
	})
	if !ok {
		res.inconclusive("parent did not answer")
		return
	}
	// a top-level spawn whose kind/id collide with the child's registry id
	outsider := e.Spawn(w.producer(childKey), "par/p/kid", actor.WithID("x"))
	mon.flush(e, wd)
	res.Desc = fmt.Sprintf("child duplicates=%d + colliding top-level spawn", nDup)
	w.mu.Lock()
	produced := w.produced[childKey]
	w.mu.Unlock()
	if produced != 1 {
		res.violate("%d SpawnChild calls with one id and a colliding top-level spawn ran the Producer %d times, expected once", nDup+1, produced)
	}
	dups := mon.count(func(x any) bool { ev, ok := x.(actor.ActorDuplicateIdEvent); return ok && ev.PID.ID == childKey })
	if dups != nDup+1 {
		res.violate("%d ActorDuplicateIdEvents for the child's id, expected %d", dups, nDup+1)
	}
	for _, p := range append(pids, outsider) {
		if p == nil || p.ID != childKey {
			res.violate("a spawn of the taken id returned PID %v", p)
		}
	}
	if len(kidsSeen) != 1 || kidsSeen[0] != childKey {
		res.violate("Children() after duplicate SpawnChild calls = %v, expected exactly the one child", kidsSeen)
	}
	// the child still works: messages reach the one instance
	for i := 0; i < 5; i++ {
		e.Send(pids[0], c10Msg{ID: i})
	}
	var inst *c10Instance
	w.mu.Lock()
	if len(w.instances[childKey]) > 0 {
		inst = w.instances[childKey][0]
	}
	w.mu.Unlock()
	if inst != nil && !waitFor(wd, func() bool { inst.mu.Lock(); defer inst.mu.Unlock(); return len(inst.got) == 5 }) {
		res.neverOrNotYet("the existing child did not receive the messages sent after the duplicate spawns")
	}
	// stop the child, then the id can be spawned again (once)
	select {
	case <-e.Poison(pids[0]).Done():
	case <-time.After(wd):
		res.inconclusive("child did not stop")
		return
	}
	if e.Registry.GetPID("par/p/kid", "x") != nil {
		res.violate("GetPID still finds the child after its stop context was done")
	}
	ok = do(func(c *actor.Context) {
		c.SpawnChild(w.producer(childKey), "kid", actor.WithID("x"))
		c.SpawnChild(w.producer(childKey), "kid", actor.WithID("x"))
	})
	if !ok {
		res.inconclusive("parent did not answer")
		return
	}
	w.mu.Lock()
	produced = w.produced[childKey]
	w.mu.Unlock()
	if produced != 2 {
		res.violate("after the child had stopped, two SpawnChild calls with its id brought the total of Producer runs to %d, expected 2 (one respawn, one duplicate)", produced)
	}
	res.count("child_duplicate_spawns", int64(nDup+1))
	res.Sig = sigHash("child", nDup)
	if c.n < 3 || res.Verdict == vViolated {
		res.Sample = map[string]any{"scenario": res.Desc, "producer_runs": produced, "duplicate_events": dups}
	}
	e.Poison(parent)
	return res
}

// c10WhileStopping: while an actor is inside its Stopped handler the two views of
// "is the id taken" must agree: GetPID finds it exactly if a spawn of the id is
// refused. (Whether an implementation unregisters before or after Stopped is its
// business; that the registry and GetPID tell the same story is not.)
type c10Slow struct {
	entered    chan struct{}
	release    chan struct{}
	seenInside *actor.PID
	ctxSeen    *actor.PID
}

func (a *c10Slow) Receive(c *actor.Context) {
	if _, ok := c.Message().(actor.Stopped); ok {
		a.ctxSeen = c.GetPID(c.PID().ID)
		close(a.entered)
		<-a.release
	}
}

func c10WhileStopping(c *caseCtx) (res caseResult) {
	wd := watchdog(c.tier)
	e, mon, _, err := newMonitoredEngine()
	if err != nil {
		res.inconclusive("engine: %v", err)
		return
	}
	slow := &c10Slow{entered: make(chan struct{}), release: make(chan struct{})}
	withChild := c.n%16 == 2
	var pid *actor.PID
	if withChild {
		// the slow actor is a child: its parent is shut down, which takes the child down first
		parent := e.SpawnFunc(func(c *actor.Context) {
			if _, ok := c.Message().(actor.Started); ok {
				c.SpawnChild(func() actor.Receiver { return slow }, "kid", actor.WithID("s"))
			}
		}, "wsp", actor.WithID("p"))
		pid = actor.NewPID("local", "wsp/p/kid/s")
		e.Poison(parent)
	} else {
		pid = e.Spawn(func() actor.Receiver { return slow }, "ws", actor.WithID("s"))
		e.Poison(pid)
	}
	select {
	case <-slow.entered:
	case <-time.After(wd):
		res.inconclusive("the actor did not reach its Stopped handler")
		return
	}
	kind, id := idKind(pid.ID)
	found := e.Registry.GetPID(kind, id)
	var produced int32
	e.Spawn(func() actor.Receiver { atomic.AddInt32(&produced, 1); return &nopActor{} }, kind, actor.WithID(id))
	mon.flush(e, wd)
	refused := mon.count(func(x any) bool { ev, ok := x.(actor.ActorDuplicateIdEvent); return ok && ev.PID.ID == pid.ID }) > 0
	close(slow.release)
	res.Desc = fmt.Sprintf("while-stopping child=%v: GetPID found=%v, spawn refused=%v, producer ran=%d", withChild, found != nil, refused, atomic.LoadInt32(&produced))
	if (found != nil) != refused || refused == (atomic.LoadInt32(&produced) == 1) {
		res.violate("while the actor %s handles Stopped, Registry.GetPID says taken=%v (Context.GetPID inside the handler: %v) but a spawn of the id was refused=%v (producer ran %d times): GetPID must return the PID exactly while the actor is registered", pid.ID, found != nil, slow.ctxSeen != nil, refused, atomic.LoadInt32(&produced))
	} else if (slow.ctxSeen != nil) != (found != nil) {
		res.violate("Context.GetPID (%v) and Registry.GetPID (%v) disagree about the same id at the same time", slow.ctxSeen != nil, found != nil)
	}
	res.Sig = sigHash("whilestopping", withChild)
	res.Sample = map[string]any{"scenario": res.Desc}
	e.Poison(pid)
	return res
}

// c10ID: ids are free-form strings chosen by the application; most runs use a plain word, some use
// ids with path, URL or whitespace syntax in them - they name an actor like any other.
func c10ID(r *rand.Rand, plain string) string {
	if r.Intn(3) != 0 {
		return plain
	}
	return pick(r, "http://example.com/feed", "./relative/file.txt", "dir/../other", "trailing/", "a//b", ".", "..", " padded ", "user@host:22", "ключ/键", "with%2Fescape", "tab\tid")
}
