package main

// C18 (membership view) and C19 (activations) — a real cluster.Cluster per node,
// a do-nothing provider (the harness plays the provider and pushes *Members
// snapshots straight to the agents) and, for C19, an in-memory network: a
// harness implementation of actor.Remoter that queues outbound messages per
// (source, destination), round-trips every message through the real
// ProtoSerializer and delivers in a PRNG-chosen order (FIFO per pair, as TCP
// gives).

import (
	"fmt"
	"math/rand"
	"sort"
	"strings"
	"sync"
	"sync/atomic"
	"time"

	"github.com/anthdm/hollywood/actor"
	"github.com/anthdm/hollywood/cluster"
	"github.com/anthdm/hollywood/remote"
)

func stubProvider() cluster.Producer {
	return func(*cluster.Cluster) actor.Producer {
		return func() actor.Receiver { return &nopActor{} }
	}
}

type nopActor struct{}

func (nopActor) Receive(*actor.Context) {}

// ---------------------------------------------------------------------------
// C18

func init() {
	register(&prop{
		id:    "C18",
		level: "exploration",
		rule: "PRNG sequences of 1-30 membership snapshots over a universe of 8 members x 5 kinds (growing, shrinking, repeated, with duplicate entries, always containing the observing node) pushed to the agent of a real Cluster; after each snapshot the monitor compares Members(), HasKind(k) for every kind and the MemberJoinEvent/MemberLeaveEvent log with a set model; " +
			"non-trivial = the sequence contains a leave, a re-join or a duplicate entry; distinct by the sequence of (joined, left, duplicates) per step",
		assumptions: []string{
			"Members() is itself a request queued behind the snapshot in the agent's inbox, and events are flushed with a marker through the event stream: no sleeps",
			"a member's kind set is fixed for a history (the statement does not say what a changed kind set of a member that stays means)",
		},
		modes: func(tier string, seed int64) []modeSpec {
			n := 1600
			if tier == "thorough" {
				n = 120000
			}
			return []modeSpec{{name: "snapshots", n: n, perChild: n / 16, timeout: 20 * time.Minute}}
		},
		run:         c18Run,
		minDistinct: 30,
	})
}

func c18Run(c *caseCtx) (res caseResult) {
	r := c.rng
	wd := watchdog(c.tier)
	e, mon, _, err := newMonitoredEngine()
	if err != nil {
		res.inconclusive("engine: %v", err)
		return
	}
	allKinds := []string{"k0", "k1", "k2", "k3", "k4"}
	cfg := cluster.NewConfig().WithEngine(e).WithProvider(stubProvider()).WithID("self").WithRequestTimeout(60 * time.Second)
	cl, err := cluster.New(cfg)
	if err != nil {
		res.inconclusive("cluster: %v", err)
		return
	}
	var selfKinds []string
	for _, k := range allKinds {
		if r.Intn(4) == 0 {
			selfKinds = append(selfKinds, k)
			cl.RegisterKind(k, func() actor.Receiver { return &nopActor{} }, cluster.NewKindConfig())
		}
	}
	cl.Start()
	self := cl.Member()
	universe := []*cluster.Member{self}
	for i := 1; i < 8; i++ {
		var ks []string
		for _, k := range allKinds {
			if r.Intn(3) == 0 {
				ks = append(ks, k)
			}
		}
		universe = append(universe, &cluster.Member{ID: fmt.Sprintf("m%d", i), Host: fmt.Sprintf("10.0.0.%d:4000", i), Kinds: ks, Region: "r"})
	}
	if r.Intn(3) == 0 {
		// the previous incarnation of this very node: another id (ids are random by default), the same address
		universe[1+r.Intn(len(universe)-1)].Host = self.Host
	}
	prev := map[string]bool{}
	steps := 1 + r.Intn(30)
	var script []string
	var shape []string
	nontrivial := false
	seenEvents := 0
	for s := 0; s < steps; s++ {
		// next snapshot
		cur := map[string]bool{"self": true}
		var snap []*cluster.Member
		mode := r.Intn(5)
		for i, m := range universe {
			if i == 0 {
				continue
			}
			in := false
			switch mode {
			case 0: // grow
				in = prev[m.ID] || r.Intn(3) == 0
			case 1: // shrink
				in = prev[m.ID] && r.Intn(3) != 0
			case 2: // repeat
				in = prev[m.ID]
			default:
				in = r.Intn(2) == 0
			}
			if in {
				cur[m.ID] = true
			}
		}
		dups, moved := 0, 0
		for _, m := range universe {
			if cur[m.ID] {
				// fresh objects each time, as a provider decoding from the wire would hand over
				mm := m.CloneVT()
				if m.ID != "self" && r.Intn(8) == 0 {
					// the member is reported under another address than last time (it was restarted with
					// a fixed id): members are identified by id, it has stayed
					mm.Host = fmt.Sprintf("10.0.%d.%s:4000", 1+s%200, m.ID[1:])
					moved++
				}
				snap = append(snap, mm)
				if r.Intn(6) == 0 {
					snap = append(snap, mm.CloneVT())
					dups++
				}
			}
		}
		r.Shuffle(len(snap), func(i, j int) { snap[i], snap[j] = snap[j], snap[i] })
		e.Send(cl.PID(), &cluster.Members{Members: snap})
		got := cl.Members()
		if !mon.flush(e, wd) {
			res.inconclusive("marker did not come back")
			return
		}
		var joined, left []string
		for id := range cur {
			if !prev[id] {
				joined = append(joined, id)
			}
		}
		for id := range prev {
			if !cur[id] {
				left = append(left, id)
			}
		}
		sort.Strings(joined)
		sort.Strings(left)
		script = append(script, fmt.Sprintf("snapshot %v (dups %d, under a new address %d) => +%v -%v", sortedKeys(cur), dups, moved, joined, left))
		shape = append(shape, fmt.Sprintf("%d/%d/%d/%d", len(joined), len(left), dups, moved))
		if len(left) > 0 || dups > 0 || moved > 0 {
			nontrivial = true
		}
		// Members()
		var gotIDs []string
		for _, m := range got {
			gotIDs = append(gotIDs, m.ID)
		}
		sort.Strings(gotIDs)
		if strings.Join(gotIDs, ",") != strings.Join(sortedKeys(cur), ",") {
			res.violate("step %d: Members() = %v, the snapshot was %v", s, gotIDs, sortedKeys(cur))
		}
		// events of this step
		evs := mon.snapshot()
		var gotJ, gotL []string
		for _, x := range evs[seenEvents:] {
			switch ev := x.(type) {
			case cluster.MemberJoinEvent:
				gotJ = append(gotJ, ev.Member.ID)
			case cluster.MemberLeaveEvent:
				gotL = append(gotL, ev.Member.ID)
			}
		}
		seenEvents = len(evs)
		sort.Strings(gotJ)
		sort.Strings(gotL)
		if strings.Join(gotJ, ",") != strings.Join(joined, ",") {
			res.violate("step %d: MemberJoinEvents for %v, expected exactly one for each of %v", s, gotJ, joined)
		}
		if strings.Join(gotL, ",") != strings.Join(left, ",") {
			res.violate("step %d: MemberLeaveEvents for %v, expected exactly one for each of %v", s, gotL, left)
		}
		// kinds
		for _, k := range append(allKinds, "nokind") {
			want := false
			for _, m := range universe {
				if cur[m.ID] {
					for _, mk := range m.Kinds {
						if mk == k {
							want = true
						}
					}
				}
			}
			if g := cl.HasKind(k); g != want {
				res.violate("step %d: HasKind(%q) = %v, but %v according to the kinds of the current members %v", s, k, g, want, sortedKeys(cur))
			}
		}
		prev = cur
		if res.Verdict == vViolated {
			break
		}
	}
	res.count("snapshots", int64(steps))
	res.Desc = fmt.Sprintf("snapshots=%d selfKinds=%v", steps, selfKinds)
	if nontrivial {
		res.Sig = sigHash("c18", strings.Join(shape, " "))
	}
	if c.n < 2 || res.Verdict == vViolated {
		var uni []string
		for _, m := range universe {
			uni = append(uni, fmt.Sprintf("%s%v", m.ID, m.Kinds))
		}
		res.Sample = map[string]any{"universe": uni, "history": script}
	}
	return res
}

func sortedKeys(m map[string]bool) []string {
	var out []string
	for k, v := range m {
		if v {
			out = append(out, k)
		}
	}
	sort.Strings(out)
	return out
}

// ---------------------------------------------------------------------------
// in-memory network

type memMsg struct {
	target, sender *actor.PID
	msg            any
}

type memNet struct {
	mu        sync.Mutex
	queues    map[[2]string][]memMsg
	nodes     map[string]*memRemote
	rng       *rand.Rand
	delivered int64
	dropped   int64
	inflight  int
	badSer    []string
	stop      chan struct{}
	wake      chan struct{}
}

type memRemote struct {
	net    *memNet
	addr   string
	engine *actor.Engine
	down   int32
}

func newMemNet(seed int64) *memNet {
	n := &memNet{queues: map[[2]string][]memMsg{}, nodes: map[string]*memRemote{}, rng: newRand(seed), stop: make(chan struct{}), wake: make(chan struct{}, 1)}
	go n.pump()
	return n
}

func (n *memNet) remoteFor(addr string) *memRemote {
	r := &memRemote{net: n, addr: addr}
	n.mu.Lock()
	n.nodes[addr] = r
	n.mu.Unlock()
	return r
}

func (r *memRemote) Address() string             { return r.addr }
func (r *memRemote) Start(e *actor.Engine) error { r.engine = e; return nil }
func (r *memRemote) Stop() *sync.WaitGroup       { return &sync.WaitGroup{} }
func (r *memRemote) Send(pid *actor.PID, msg any, sender *actor.PID) {
	// like the real remote, Send only queues the message object: it is serialised later, by the
	// "writer" (the pump) - a sender that reuses the message's memory after Send corrupts it
	r.net.mu.Lock()
	k := [2]string{r.addr, pid.Address}
	r.net.queues[k] = append(r.net.queues[k], memMsg{target: pid, sender: sender, msg: msg})
	r.net.mu.Unlock()
	select {
	case r.net.wake <- struct{}{}:
	default:
	}
}

func (n *memNet) pump() {
	for {
		select {
		case <-n.stop:
			return
		default:
		}
		n.mu.Lock()
		var keys [][2]string
		for k, q := range n.queues {
			if len(q) > 0 {
				keys = append(keys, k)
			}
		}
		if len(keys) == 0 {
			n.mu.Unlock()
			select {
			case <-n.wake:
			case <-n.stop:
				return
			case <-time.After(200 * time.Microsecond):
			}
			continue
		}
		sort.Slice(keys, func(i, j int) bool { return keys[i][0]+"|"+keys[i][1] < keys[j][0]+"|"+keys[j][1] })
		k := keys[n.rng.Intn(len(keys))]
		m := n.queues[k][0]
		n.queues[k] = n.queues[k][1:]
		dst := n.nodes[k[1]]
		n.inflight++
		n.mu.Unlock()
		done := func() {
			n.mu.Lock()
			n.inflight--
			n.mu.Unlock()
		}
		if dst == nil || atomic.LoadInt32(&dst.down) == 1 || dst.engine == nil {
			atomic.AddInt64(&n.dropped, 1)
			done()
			continue
		}
		ser := remote.ProtoSerializer{}
		var data []byte
		var tname string
		if p := catchPanic(func() {
			var err error
			data, err = ser.Serialize(m.msg)
			if err != nil {
				panic(err)
			}
			tname = ser.TypeName(m.msg)
		}); p != "" {
			n.mu.Lock()
			n.badSer = append(n.badSer, fmt.Sprintf("%T to %s: %s", m.msg, pidStr(m.target), p))
			n.mu.Unlock()
			done()
			continue
		}
		payload, err := ser.Deserialize(data, tname)
		if err != nil {
			atomic.AddInt64(&n.dropped, 1)
			done()
			continue
		}
		dst.engine.SendLocal(m.target, payload, m.sender)
		atomic.AddInt64(&n.delivered, 1)
		done()
	}
}

func (n *memNet) empty() bool {
	n.mu.Lock()
	defer n.mu.Unlock()
	if n.inflight > 0 {
		return false
	}
	for _, q := range n.queues {
		if len(q) > 0 {
			return false
		}
	}
	return true
}

// ---------------------------------------------------------------------------
// C19

func init() {
	register(&prop{
		id:    "C19",
		level: "exploration",
		rule: "PRNG quiescent histories of 5-40 operations {activate (kind, id, select function from the PRNG, issued on a PRNG node), deactivate, cluster-spawn, node join, node leave} over 1-5 real Cluster nodes connected by the in-memory network with PRNG delivery order; after each operation the network is drained and every agent is barriered, then EVERY node's GetActiveByID / GetActiveByKind / Members and the per-node producer counters are compared with a sequential model of the cluster; " +
			"non-trivial = >=2 nodes and at least one remote activation, duplicate activation, deactivation or leave; distinct by the operation sequence shape",
		assumptions: []string{
			"concurrent conflicting activations on different nodes are outside the property (it quantifies over quiescent histories)",
			"the in-memory Remoter carries every inter-node message through the real ProtoSerializer; a sample over real TCP remotes is part of C17/C20 rather than of this check",
			"a member that left may come back under its old id and address as a fresh process (its predecessor is cut off from the network for good); every cluster request timeout is set to 60 s so that a slow machine cannot turn into a wrong answer",
		},
		modes: func(tier string, seed int64) []modeSpec {
			n := 640
			if tier == "thorough" {
				n = 64000
			}
			return []modeSpec{{name: "memnet", n: n, perChild: n / 16, timeout: 30 * time.Minute}}
		},
		run:         c19Run,
		minDistinct: 30,
	})
}

type c19Node struct {
	id     string
	addr   string
	kinds  []string
	eng    *actor.Engine
	cl     *cluster.Cluster
	rem    *memRemote
	alive  bool
	prod   *prodCounter
	member *cluster.Member
}

type prodCounter struct {
	mu      sync.Mutex
	runs    map[string]int // "kind" -> producer runs on this node
	stopped map[string]int // pid id -> Stopped deliveries
	started map[string]int
}

type c19Actor struct {
	pc *prodCounter
}

func (a *c19Actor) Receive(c *actor.Context) {
	switch c.Message().(type) {
	case actor.Started:
		a.pc.mu.Lock()
		a.pc.started[c.PID().ID]++
		a.pc.mu.Unlock()
	case actor.Stopped:
		a.pc.mu.Lock()
		a.pc.stopped[c.PID().ID]++
		a.pc.mu.Unlock()
	}
}

func c19Run(c *caseCtx) (res caseResult) {
	r := c.rng
	wd := watchdog(c.tier)
	net := newMemNet(r.Int63())
	defer close(net.stop)
	allKinds := []string{"ka", "kab", "kc"} // one kind name is a proper prefix of another
	var nodes []*c19Node
	nextNode := 0
	var gone []*c19Node
	var reuse *c19Node // if set, the next node comes back under this one's id and address (a restart of that member)
	newNode := func() *c19Node {
		nextNode++
		nd := &c19Node{id: fmt.Sprintf("n%d", nextNode), addr: fmt.Sprintf("mem-%d:1", nextNode), alive: true,
			prod: &prodCounter{runs: map[string]int{}, stopped: map[string]int{}, started: map[string]int{}}}
		if reuse != nil {
			nd.id, nd.addr = reuse.id, reuse.addr
			reuse = nil
		}
		nd.rem = net.remoteFor(nd.addr)
		e, err := actor.NewEngine(actor.NewEngineConfig().WithRemote(nd.rem))
		if err != nil {
			return nil
		}
		nd.eng = e
		cl, err := cluster.New(cluster.NewConfig().WithEngine(e).WithProvider(stubProvider()).WithID(nd.id).WithRequestTimeout(60 * time.Second))
		if err != nil {
			return nil
		}
		for _, k := range allKinds {
			if r.Intn(2) == 0 {
				k := k
				nd.kinds = append(nd.kinds, k)
				pc := nd.prod
				cl.RegisterKind(k, func() actor.Receiver {
					pc.mu.Lock()
					pc.runs[k]++
					pc.mu.Unlock()
					return &c19Actor{pc: pc}
				}, cluster.NewKindConfig())
			}
		}
		nd.cl = cl
		cl.Start()
		nd.member = cl.Member()
		nodes = append(nodes, nd)
		return nd
	}
	aliveNodes := func() []*c19Node {
		var out []*c19Node
		for _, n := range nodes {
			if n.alive {
				out = append(out, n)
			}
		}
		return out
	}
	pushMembership := func() {
		al := aliveNodes()
		order := r.Perm(len(al))
		for _, i := range order {
			var ms []*cluster.Member
			for _, n := range al {
				ms = append(ms, n.member.CloneVT())
			}
			r.Shuffle(len(ms), func(a, b int) { ms[a], ms[b] = ms[b], ms[a] })
			al[i].eng.Send(al[i].cl.PID(), &cluster.Members{Members: ms})
		}
	}
	quiesce := func() bool {
		deadline := time.Now().Add(wd)
		calm := 0
		for calm < 2 {
			if time.Now().After(deadline) {
				return false
			}
			before := atomic.LoadInt64(&net.delivered)
			if !net.empty() {
				calm = 0
				time.Sleep(100 * time.Microsecond)
				continue
			}
			// barrier every agent: Members() is queued behind whatever was delivered to it
			for _, n := range aliveNodes() {
				n.cl.Members()
			}
			if net.empty() && atomic.LoadInt64(&net.delivered) == before {
				calm++
			} else {
				calm = 0
			}
		}
		return true
	}
	// model
	active := map[string]*actor.PID{} // "kind/id" -> pid
	var retired []string              // ids that were active once and are free again
	nStart := 1 + r.Intn(5)
	for i := 0; i < nStart; i++ {
		if newNode() == nil {
			res.inconclusive("node setup failed")
			return
		}
	}
	pushMembership()
	if !quiesce() {
		res.inconclusive("cluster did not become quiescent after start")
		return
	}
	nOps := 5 + r.Intn(36)
	var script []string
	var shape []byte
	bulk := 0
	if c.n%40 == 7 {
		// a cluster with several hundred active actors: what a later joiner is told no longer fits in one small message
		bulk = 257 + r.Intn(200)
	}
	interesting := 0
	nextID := 0
	check := func(step int, what string) {
		al := aliveNodes()
		for _, n := range al {
			// members
			var got []string
			for _, m := range n.cl.Members() {
				got = append(got, m.ID)
			}
			sort.Strings(got)
			var want []string
			for _, m := range al {
				want = append(want, m.id)
			}
			sort.Strings(want)
			if strings.Join(got, ",") != strings.Join(want, ",") {
				res.violate("after step %d (%s): node %s sees members %v, the cluster is %v", step, what, n.id, got, want)
			}
			for id, pid := range active {
				g := n.cl.GetActiveByID(id)
				if g == nil || !g.Equals(pid) {
					res.violate("after step %d (%s): node %s resolves %s to %v, it is active as %v", step, what, n.id, id, g, pid)
				}
			}
			for _, k := range append(append([]string(nil), allKinds...), "spawned", "k", "spawn") { // also prefixes that are no kind at all
				var want []string
				for id, pid := range active {
					if strings.HasPrefix(id, k+"/") {
						want = append(want, pidStr(pid))
					}
				}
				sort.Strings(want)
				var got []string
				for _, p := range n.cl.GetActiveByKind(k) {
					if p != nil {
						got = append(got, pidStr(p))
					}
				}
				sort.Strings(got)
				if strings.Join(got, ",") != strings.Join(want, ",") {
					res.violate("after step %d (%s): node %s lists %v under kind %s, active are %v", step, what, n.id, got, k, want)
				}
			}
		}
	}
	if bulk > 0 {
		al := aliveNodes()
		for i := 0; i < bulk; i++ {
			from := al[r.Intn(len(al))]
			nextID++
			id := fmt.Sprintf("s%d", nextID)
			pc := from.prod
			active["spawned/"+id] = from.cl.Spawn(func() actor.Receiver { return &c19Actor{pc: pc} }, "spawned", actor.WithID(id))
		}
		if !quiesce() {
			res.inconclusive("no quiescence after the bulk spawn")
			return
		}
		script = append(script, fmt.Sprintf("bulk: %d cluster-spawns", bulk))
		check(-1, "bulk spawn")
		interesting++
	}
	for step := 0; step < nOps && res.Verdict != vViolated; step++ {
		al := aliveNodes()
		op := r.Intn(10)
		if bulk > 0 && step == 0 {
			op = 8 // a member joins the well-populated cluster
		}
		var what string
		switch {
		case op < 5: // activate
			from := al[r.Intn(len(al))]
			kind := allKinds[r.Intn(len(allKinds))]
			var id string
			if len(active) > 0 && r.Intn(4) == 0 {
				// try to activate something that exists already
				for k := range active {
					if !strings.HasPrefix(k, "spawned/") {
						parts := strings.SplitN(k, "/", 2)
						kind, id = parts[0], parts[1]
					}
					break
				}
			}
			if id == "" && len(retired) > 0 && r.Intn(3) == 0 {
				// an id that was active before (deactivated, or lost with its host) is used again
				k := retired[r.Intn(len(retired))]
				parts := strings.SplitN(k, "/", 2)
				if _, isActive := active[k]; !isActive {
					kind, id = parts[0], parts[1]
					interesting++
				}
			}
			if id == "" {
				nextID++
				id = fmt.Sprintf("a%d", nextID)
			}
			sel := r.Intn(1000)
			var capable []*c19Node
			for _, n := range al {
				for _, k := range n.kinds {
					if k == kind {
						capable = append(capable, n)
					}
				}
			}
			sort.Slice(capable, func(i, j int) bool { return capable[i].id < capable[j].id })
			var selectorSaw []string
			cfg := cluster.NewActivationConfig().WithID(id).WithSelectMemberFunc(func(d cluster.ActivationDetails) *cluster.Member {
				ms := append([]*cluster.Member(nil), d.Members...)
				sort.Slice(ms, func(i, j int) bool { return ms[i].ID < ms[j].ID })
				for _, m := range ms {
					selectorSaw = append(selectorSaw, m.ID)
				}
				if sel%3 == 0 {
					// a select function may hand back a Member value of its own for the member it picked
					return ms[sel%len(ms)].CloneVT()
				}
				return ms[sel%len(ms)]
			})
			// now and then an activation that leaves the id to the hosting engine
			idless := false
			if _, isActive := active[kind+"/"+id]; !isActive && strings.HasPrefix(id, "a") && r.Intn(10) == 0 {
				idless = true
				cfg = cfg.WithID("")
			}
			key := kind + "/" + id
			before := map[*c19Node]int{}
			for _, n := range nodes {
				n.prod.mu.Lock()
				before[n] = n.prod.runs[kind]
				n.prod.mu.Unlock()
			}
			pid := from.cl.Activate(kind, cfg)
			if !quiesce() {
				res.inconclusive("no quiescence after activate")
				return
			}
			what = fmt.Sprintf("activate %s from %s", key, from.id)
			_, exists := active[key]
			ran := 0
			ranOn := ""
			for _, n := range nodes {
				n.prod.mu.Lock()
				d := n.prod.runs[kind] - before[n]
				n.prod.mu.Unlock()
				ran += d
				if d > 0 {
					ranOn = n.id
				}
			}
			switch {
			case exists:
				interesting++
				what += " (already active)"
				if pid != nil || ran != 0 {
					res.violate("step %d: %s returned %v and ran %d producer(s); the id is already known to the cluster: expected nil and nothing spawned", step, what, pid, ran)
				}
			case len(capable) == 0:
				what += " (no member has the kind)"
				if pid != nil || ran != 0 {
					res.violate("step %d: %s returned %v and ran %d producer(s); no member advertises the kind", step, what, pid, ran)
				}
			default:
				host := capable[sel%len(capable)]
				want := actor.NewPID(host.addr, key)
				if host != from {
					interesting++
				}
				var capIDs []string
				for _, n := range capable {
					capIDs = append(capIDs, n.id)
				}
				if strings.Join(selectorSaw, ",") != strings.Join(capIDs, ",") {
					res.violate("step %d: %s: the select function was offered members %v, the members that registered the kind are %v", step, what, selectorSaw, capIDs)
				}
				if idless {
					what += " (id left to the hosting engine)"
					if pid == nil || pid.Address != host.addr || !strings.HasPrefix(pid.ID, kind+"/") || pid.ID == kind+"/" {
						res.violate("step %d: %s returned %v, expected an actor of kind %s with an id of its own on %s (the member chosen by the select function)", step, what, pid, kind, host.addr)
						pid = nil
					} else {
						want = pid
						key = pid.ID
						id = strings.TrimPrefix(pid.ID, kind+"/")
					}
				}
				if pid == nil || !pid.Equals(want) {
					res.violate("step %d: %s returned %v, expected %v (the member chosen by the select function)", step, what, pid, want)
				}
				if ran != 1 || ranOn != host.id {
					res.violate("step %d: %s: %d producer run(s), last on %q; expected exactly one, on %s", step, what, ran, ranOn, host.id)
				}
				if pid != nil {
					active[key] = want
				}
				if host.eng.Registry.GetPID(kind, id) == nil {
					res.violate("step %d: %s: no such actor is registered on the chosen member %s", step, what, host.id)
				}
			}
			shape = append(shape, 'A')
		case op < 7: // deactivate
			if len(active) == 0 {
				continue
			}
			var keys []string
			for k := range active {
				keys = append(keys, k)
			}
			sort.Strings(keys)
			key := keys[r.Intn(len(keys))]
			pid := active[key]
			from := al[r.Intn(len(al))]
			stoppedBefore := 0
			for _, n := range al {
				if n.addr == pid.Address {
					n.prod.mu.Lock()
					stoppedBefore = n.prod.stopped[key]
					n.prod.mu.Unlock()
				}
			}
			from.cl.Deactivate(pid)
			if !quiesce() {
				res.inconclusive("no quiescence after deactivate")
				return
			}
			delete(active, key)
			if !strings.HasPrefix(key, "spawned/") {
				retired = append(retired, key)
			}
			interesting++
			what = fmt.Sprintf("deactivate %s from %s", key, from.id)
			for _, n := range al {
				if g := n.cl.GetActiveByID(key); g != nil {
					res.violate("step %d: %s: node %s still resolves the id to %v", step, what, n.id, g)
				}
			}
			// the actor itself has been stopped
			var host *c19Node
			for _, n := range al {
				if n.addr == pid.Address {
					host = n
				}
			}
			if host != nil && host.alive {
				parts := strings.SplitN(key, "/", 2)
				if !waitFor(wd, func() bool { return host.eng.Registry.GetPID(parts[0], parts[1]) == nil }) {
					res.neverOrNotYet("step %d: %s: the actor is still registered on its host %s", step, what, host.id)
				}
				host.prod.mu.Lock()
				st := host.prod.stopped[key]
				host.prod.mu.Unlock()
				if !strings.HasPrefix(key, "spawned/") && st-stoppedBefore != 1 {
					res.violate("step %d: %s: the actor received Stopped %d times", step, what, st-stoppedBefore)
				}
			}
			shape = append(shape, 'D')
		case op < 8: // cluster spawn
			from := al[r.Intn(len(al))]
			nextID++
			id := fmt.Sprintf("s%d", nextID)
			pc := from.prod
			pid := from.cl.Spawn(func() actor.Receiver { return &c19Actor{pc: pc} }, "spawned", actor.WithID(id))
			if !quiesce() {
				res.inconclusive("no quiescence after spawn")
				return
			}
			active["spawned/"+id] = pid
			what = fmt.Sprintf("cluster-spawn spawned/%s on %s", id, from.id)
			shape = append(shape, 'S')
		case op < 9: // join
			if len(al) >= 5 {
				continue
			}
			rejoin := ""
			if len(gone) > 0 && r.Intn(2) == 0 {
				// a member that left comes back: same id, same address, fresh process
				k := r.Intn(len(gone))
				reuse = gone[k]
				gone = append(gone[:k], gone[k+1:]...)
				rejoin = " (a member that had left comes back under its old id and address)"
				interesting++
			}
			nd := newNode()
			if nd == nil {
				res.inconclusive("node setup failed")
				return
			}
			alone := 0
			if r.Intn(3) == 0 {
				// the newcomer has been running on its own for a while (a cluster of one) and hosts actors
				// already: joining merges the two tables in both directions
				nd.eng.Send(nd.cl.PID(), &cluster.Members{Members: []*cluster.Member{nd.member.CloneVT()}})
				nd.cl.Members()
				alone = 1 + r.Intn(4)
				for i := 0; i < alone; i++ {
					nextID++
					id := fmt.Sprintf("s%d", nextID)
					pc := nd.prod
					active["spawned/"+id] = nd.cl.Spawn(func() actor.Receiver { return &c19Actor{pc: pc} }, "spawned", actor.WithID(id))
				}
				nd.cl.Members()
				interesting++
			}
			pushMembership()
			if !quiesce() {
				res.inconclusive("no quiescence after join")
				return
			}
			what = fmt.Sprintf("join %s%v%s", nd.id, nd.kinds, rejoin)
			if alone > 0 {
				what += fmt.Sprintf(" (after running alone with %d cluster-spawned actors)", alone)
			}
			if len(active) > 0 {
				interesting++
			}
			shape = append(shape, 'J')
		default: // leave
			if len(al) <= 1 {
				continue
			}
			nd := al[r.Intn(len(al))]
			nd.alive = false
			atomic.StoreInt32(&nd.rem.down, 1)
			pushMembership()
			if !quiesce() {
				res.inconclusive("no quiescence after leave")
				return
			}
			for k, pid := range active {
				if pid.Address == nd.addr {
					delete(active, k)
					if !strings.HasPrefix(k, "spawned/") {
						retired = append(retired, k)
					}
					interesting++
				}
			}
			gone = append(gone, nd)
			what = fmt.Sprintf("leave %s", nd.id)
			shape = append(shape, 'L')
		}
		script = append(script, what)
		check(step, what)
	}
	net.mu.Lock()
	if len(net.badSer) > 0 {
		res.violate("a message handed to the remote could not be serialised: %v", net.badSer[0])
	}
	net.mu.Unlock()
	res.count("operations", int64(len(script)))
	res.count("network_messages_delivered", atomic.LoadInt64(&net.delivered))
	res.count("nodes_created", int64(len(nodes)))
	res.Desc = fmt.Sprintf("nodes=%d bulk=%d ops=%s", len(nodes), bulk, string(shape))
	if len(nodes) >= 2 && interesting > 0 {
		res.Sig = sigHash("c19", len(nodes), string(shape))
	}
	if c.n < 2 || res.Verdict == vViolated {
		var ns []string
		for _, n := range nodes {
			ns = append(ns, fmt.Sprintf("%s@%s%v", n.id, n.addr, n.kinds))
		}
		res.Sample = map[string]any{"nodes": ns, "history": script, "network_messages": atomic.LoadInt64(&net.delivered)}
	}
	return res
}
