package main

// C02 — an actor processes one message at a time (serial, race-free Receive).
//
//   raw-overlap     raw Inbox + Processer with an in-flight counter, yields at every
//                   procStatus / ring operation and inside Invoke
//   raw-race        the same workload in the -race build with a completely
//                   unsynchronised Processer (plain counters, plain append); the
//                   hooks are synchronisation-free there
//   raw-sustained   a paced sender keeps the inbox non-empty across several hundred
//                   consecutive pops of ONE worker run (message n+1 is queued before n is
//                   released), so that the worker's throughput-yield path is exercised
//   engine-overlap  engine actors: in-flight counter over user + lifecycle
//                   messages, concurrent senders, Stop/Poison callers, crashes with
//                   restart delay while senders keep sending
//   engine-race     the same in the -race build with a receiver that mutates plain
//                   fields (counter, slice, map) in every Receive

import (
	"context"
	"fmt"
	"strings"
	"sync"
	"sync/atomic"
	"time"

	"github.com/anthdm/hollywood/actor"
)

func init() {
	register(&prop{
		id:    "C02",
		level: "exploration",
		rule: "PRNG scenarios (senders x messages x inbox size x Start timing; engine: + crashes/restarts, stop/poison callers); monitors: an in-flight counter at entry/exit of Invoke/Receive (overlap) and the Go race detector over deliberately unsynchronised receiver state; " +
			"a case is non-trivial if >=2 goroutines contended for the inbox (>=2 senders, or a sender racing Start); distinct by (mode, size, senders, start timing, crash/stop plan, number of batches)",
		assumptions: []string{
			"in -race runs the hooks and the receivers use no synchronisation of their own (no mutex, no atomics, no shared PRNG), so they cannot hide a race; tracing/overlap counting happens in the separate plain-build runs of the same workload",
			"an overlap shorter than the injected receive duration on an interleaving never produced is invisible: the claim is 'no overlap in N executions with this many contended hand-offs'",
		},
		modes: func(tier string, seed int64) []modeSpec {
			a, b, cN, d := 6000, 1600, 1200, 480
			if tier == "thorough" {
				a, b, cN, d = 240000, 60000, 60000, 16000
			}
			chaos := []string{"VERIF_HOOK=chaos", "VERIF_HOOK_PROB=35", "VERIF_HOOK_MAXUS=40"}
			ms := []modeSpec{
				{name: "raw-sustained", n: 96, perChild: 6, timeout: 20 * time.Minute, env: []string{"VERIF_HOOK=chaos", "VERIF_HOOK_PROB=10", "VERIF_HOOK_MAXUS=10"}},
				{name: "raw-overlap", n: a, perChild: a / 16, timeout: 20 * time.Minute, env: chaos},
				{name: "raw-race", n: b, perChild: b / 16, race: true, timeout: 30 * time.Minute, env: chaos},
				{name: "engine-overlap", n: cN, perChild: cN / 16, timeout: 30 * time.Minute, env: chaos},
				{name: "engine-race", n: d, perChild: d / 16, race: true, timeout: 30 * time.Minute, env: chaos},
			}
			ms = append(ms, modeSpec{name: "successor", n: cN / 10, perChild: cN / 160, timeout: 20 * time.Minute, env: chaos})
			ms = append(ms, modeSpec{name: "held-child", n: 4 * (1 + 3*b2int(tier == "thorough")), perChild: 1, timeout: 10 * time.Minute})
			if tier == "thorough" {
				for _, g := range []int{1, 2, 4} {
					ms = append(ms, modeSpec{name: fmt.Sprintf("raw-overlap-p%d", g), n: a / 4, perChild: a / 64, gomaxprocs: g, timeout: 30 * time.Minute, env: chaos})
					ms = append(ms, modeSpec{name: fmt.Sprintf("engine-race-p%d", g), n: d / 4, perChild: d / 64, race: true, gomaxprocs: g, timeout: 30 * time.Minute, env: chaos})
				}
			}
			return ms
		},
		run: func(c *caseCtx) caseResult {
			switch {
			case c.mode == "raw-sustained":
				return c02Sustained(c)
			case c.mode == "successor":
				return c02Successor(c)
			case c.mode == "held-child":
				return c02Held(c, false)
			case len(c.mode) >= 8 && c.mode[:8] == "raw-race":
				return c02Raw(c, true)
			case len(c.mode) >= 3 && c.mode[:3] == "raw":
				return c02Raw(c, false)
			case len(c.mode) >= 11 && c.mode[:11] == "engine-race":
				return c02Engine(c, true)
			default:
				return c02Engine(c, false)
			}
		},
		minDistinct: 40,
	})
}

// unsyncProc: no synchronisation whatsoever; read only after the final marker.
type unsyncProc struct {
	n       int
	ids     []int
	batches int
	m       map[int]int
}

func (p *unsyncProc) Start()                           {}
func (p *unsyncProc) PID() *actor.PID                  { return nil }
func (p *unsyncProc) Send(*actor.PID, any, *actor.PID) {}
func (p *unsyncProc) Shutdown()                        {}
func (p *unsyncProc) Invoke(msgs []actor.Envelope) {
	p.batches++
	userPerturb()
	for _, e := range msgs {
		t := e.Msg.(*tmsg)
		p.n++
		p.ids = append(p.ids, t.Sender*100000+t.Seq)
		p.m[t.Sender]++
		if t.Final {
			close(t.done)
		}
	}
}

func c02Raw(c *caseCtx, race bool) (res caseResult) {
	r := c.rng
	wd := watchdog(c.tier)
	size := pick(r, 1, 2, 3, 8, 64)
	nS := 1 + r.Intn(4)
	per := 1 + r.Intn(6)
	startWhen := r.Intn(3)
	in := actor.NewInbox(size)
	var proc actor.Processer
	rp := &rawProc{}
	up := &unsyncProc{m: map[int]int{}}
	if race {
		proc = up
	} else {
		proc = rp
	}
	if startWhen == 0 {
		in.Start(proc)
	}
	var wg sync.WaitGroup
	startCh := make(chan struct{})
	for s := 0; s < nS; s++ {
		s := s
		wg.Add(1)
		go func() {
			defer wg.Done()
			<-startCh
			for i := 0; i < per; i++ {
				in.Send(actor.Envelope{Msg: &tmsg{Sender: s, Seq: i}})
			}
		}()
	}
	if startWhen == 1 {
		// Start races with the first sends
		wg.Add(1)
		go func() {
			defer wg.Done()
			<-startCh
			in.Start(proc)
		}()
	}
	close(startCh)
	wg.Wait()
	if startWhen == 2 {
		in.Start(proc)
	}
	fin := &tmsg{Sender: 99, Final: true, done: make(chan struct{})}
	in.Send(actor.Envelope{Msg: fin})
	res.Desc = fmt.Sprintf("raw size=%d senders=%d per=%d start=%d race=%v", size, nS, per, startWhen, race)
	select {
	case <-fin.done:
	case <-time.After(wd):
		res.inconclusive("final marker not invoked within the watchdog (%s)", res.Desc)
		return
	}
	batches := 0
	if race {
		batches = up.batches
		if up.n != nS*per+1 {
			res.violate("processer counted %d messages, %d were sent (lost update on unsynchronised state or lost/duplicated message)", up.n, nS*per+1)
		}
	} else {
		if o := atomic.LoadInt32(&rp.overlaps); o > 0 {
			res.violate("%d Invoke calls began while another Invoke of the same inbox was in flight", o)
		}
		rp.mu.Lock()
		batches = len(rp.batches)
		n := len(rp.got)
		rp.mu.Unlock()
		if n != nS*per+1 {
			res.violate("processer saw %d messages, %d were sent", n, nS*per+1)
		}
	}
	res.count("invocations", int64(batches))
	res.count("messages", int64(nS*per))
	if nS >= 2 || startWhen == 1 {
		res.Sig = sigHash("raw", race, size, nS, per, startWhen, batches)
	}
	if c.n < 2 || res.Verdict == vViolated {
		res.Sample = map[string]any{"scenario": res.Desc, "invoke_calls": batches}
	}
	in.Stop()
	return res
}

// ---- engine level -------------------------------------------------------------

type c02State struct {
	inflight int32
	overlaps int32
	// plain state (race mode)
	n     int
	log   []int
	m     map[string]int
	incs  int
	final chan struct{}
	// incarnation numbers whose lifecycle handler panics (0 = none)
	crashInit, crashStarted int
	made                    int32
}

type c02Actor struct {
	st   *c02State
	race bool
	inc  int
}

type crashMsg struct{ ID int }

func (a *c02Actor) Receive(c *actor.Context) {
	st := a.st
	if !a.race {
		if atomic.AddInt32(&st.inflight, 1) != 1 {
			atomic.AddInt32(&st.overlaps, 1)
		}
		defer atomic.AddInt32(&st.inflight, -1)
	} else {
		// deliberately unsynchronised
		st.n++
		st.log = append(st.log, st.n)
		st.m[fmt.Sprintf("%T", c.Message())]++
	}
	userPerturb()
	switch m := c.Message().(type) {
	case actor.Initialized:
		if a.race {
			st.incs++
		}
		if st.crashInit == a.inc {
			panic("scripted crash in Initialized")
		}
	case actor.Started:
		if st.crashStarted == a.inc {
			panic("scripted crash in Started")
		}
	case crashMsg:
		panic(fmt.Sprintf("scripted crash %d", m.ID))
	case *tmsg:
		if m.Final {
			close(m.done)
		}
	}
}

func c02Engine(c *caseCtx, race bool) (res caseResult) {
	r := c.rng
	wd := watchdog(c.tier)
	e, err := actor.NewEngine(actor.NewEngineConfig())
	if err != nil {
		res.inconclusive("engine: %v", err)
		return
	}
	st := &c02State{m: map[string]int{}}
	size := pick(r, 1, 2, 8, 1024)
	nS := 1 + r.Intn(4)
	per := 2 + r.Intn(30)
	crashes := r.Intn(3)
	ending := r.Intn(3) // 0 none (final marker), 1 poison, 2 stop
	delay := pick(r, 0, 200*time.Microsecond, 2*time.Millisecond)
	if crashes > 0 {
		// two-step fault: the receiver produced by the first restart fails again while being started
		switch r.Intn(3) {
		case 0:
			st.crashInit = 2
		case 1:
			st.crashStarted = 2
		}
	}
	pid := e.Spawn(func() actor.Receiver {
		return &c02Actor{st: st, race: race, inc: int(atomic.AddInt32(&st.made, 1))}
	}, "c02", actor.WithID("x"),
		actor.WithInboxSize(size), actor.WithMaxRestarts(10), actor.WithRestartDelay(delay))
	var wg sync.WaitGroup
	startCh := make(chan struct{})
	for s := 0; s < nS; s++ {
		s := s
		wg.Add(1)
		go func() {
			defer wg.Done()
			<-startCh
			for i := 0; i < per; i++ {
				if s == 0 && crashes > 0 && i > 0 && i%(per/crashes+1) == 0 {
					e.Send(pid, crashMsg{ID: i})
				}
				e.Send(pid, &tmsg{Sender: s, Seq: i})
			}
		}()
	}
	close(startCh)
	wg.Wait()
	res.Desc = fmt.Sprintf("engine size=%d senders=%d per=%d crashes=%d ending=%d delay=%v race=%v", size, nS, per, crashes, ending, delay, race)
	switch ending {
	case 0:
		fin := &tmsg{Sender: 99, Final: true, done: make(chan struct{})}
		e.Send(pid, fin)
		select {
		case <-fin.done:
		case <-time.After(wd):
			res.inconclusive("final marker not received (%s)", res.Desc)
			return
		}
		// reading the plain state here is ordered after the marker's Receive only;
		// stop the actor to order it after everything
		select {
		case <-e.Poison(pid).Done():
		case <-time.After(wd):
			res.inconclusive("stop context not done within the watchdog (%s)", res.Desc)
			return
		}
	default:
		// stop/poison callers racing with late senders
		var cwg sync.WaitGroup
		for k := 0; k < 1+r.Intn(2); k++ {
			graceful := ending == 1
			cwg.Add(1)
			go func() {
				defer cwg.Done()
				if graceful {
					<-e.Poison(pid).Done()
				} else {
					<-e.Stop(pid).Done()
				}
			}()
		}
		cwg.Add(1)
		go func() {
			defer cwg.Done()
			for i := 0; i < 5; i++ {
				e.Send(pid, &tmsg{Sender: 50, Seq: i})
			}
		}()
		done := make(chan struct{})
		go func() { cwg.Wait(); close(done) }()
		select {
		case <-done:
		case <-time.After(wd):
			res.inconclusive("stop contexts not done within the watchdog (%s)", res.Desc)
			return
		}
	}
	if race {
		// the stop context is done: every Receive happened-before this read, if the property holds
		if st.n != len(st.log) {
			res.violate("unsynchronised receiver state is inconsistent: counter %d, log length %d (lost update)", st.n, len(st.log))
		}
		for i, v := range st.log {
			if v != i+1 {
				res.violate("unsynchronised receiver log is not 1..n at index %d (concurrent Receive)", i)
				break
			}
		}
		res.count("receives", int64(st.n))
	} else {
		if o := atomic.LoadInt32(&st.overlaps); o > 0 {
			res.violate("%d Receive calls began while another Receive of the same actor was in flight", o)
		}
	}
	res.count("cases_with_crash", b2i(crashes > 0))
	if nS >= 2 || crashes > 0 {
		res.Sig = sigHash("engine", race, size, nS, crashes, ending, delay)
	}
	if c.n < 2 || res.Verdict == vViolated {
		res.Sample = map[string]any{"scenario": res.Desc}
	}
	return res
}

// pacedProc holds every message until the harness releases it.
type pacedProc struct {
	inflight int32
	overlaps int32
	entered  chan int
	release  chan struct{}
	order    []int
	mu       sync.Mutex
}

func (p *pacedProc) Start()                           {}
func (p *pacedProc) PID() *actor.PID                  { return nil }
func (p *pacedProc) Send(*actor.PID, any, *actor.PID) {}
func (p *pacedProc) Shutdown()                        {}
func (p *pacedProc) Invoke(msgs []actor.Envelope) {
	for _, e := range msgs {
		if atomic.AddInt32(&p.inflight, 1) != 1 {
			atomic.AddInt32(&p.overlaps, 1)
		}
		t := e.Msg.(*tmsg)
		p.mu.Lock()
		p.order = append(p.order, t.Seq)
		p.mu.Unlock()
		if t.Sender == 0 {
			p.entered <- t.Seq
			<-p.release
		} else {
			userPerturb()
		}
		atomic.AddInt32(&p.inflight, -1)
	}
}

func c02Sustained(c *caseCtx) (res caseResult) {
	r := c.rng
	wd := watchdog(c.tier)
	n := 350 + r.Intn(500) // more consecutive non-empty pops than the default throughput (300)
	burst := 50 + r.Intn(200)
	in := actor.NewInbox(pick(r, 1, 8, 1024))
	p := &pacedProc{entered: make(chan int, 4), release: make(chan struct{})}
	in.Start(p)
	res.Desc = fmt.Sprintf("raw-sustained paced=%d burst=%d", n, burst)
	in.Send(actor.Envelope{Msg: &tmsg{Sender: 0, Seq: 0}})
	for i := 1; i <= n; i++ {
		// message i is queued before message i-1 is released: every pop of this worker run finds the inbox non-empty
		select {
		case <-p.entered:
		case <-time.After(wd):
			res.inconclusive("paced message %d was not invoked within the watchdog (%s)", i-1, res.Desc)
			return
		}
		if i < n {
			in.Send(actor.Envelope{Msg: &tmsg{Sender: 0, Seq: i}})
		} else {
			// while the last paced message is held, a burst from two other goroutines piles up behind it
			var wg sync.WaitGroup
			for g := 1; g <= 2; g++ {
				g := g
				wg.Add(1)
				go func() {
					defer wg.Done()
					for k := 0; k < burst; k++ {
						in.Send(actor.Envelope{Msg: &tmsg{Sender: g, Seq: 100000*g + k}})
					}
				}()
			}
			wg.Wait()
		}
		p.release <- struct{}{}
	}
	total := n + 2*burst
	if !waitFor(wd, func() bool { p.mu.Lock(); defer p.mu.Unlock(); return len(p.order) >= total }) {
		p.mu.Lock()
		got := len(p.order)
		p.mu.Unlock()
		res.inconclusive("only %d of %d messages invoked within the watchdog (%s)", got, total, res.Desc)
		return
	}
	if o := atomic.LoadInt32(&p.overlaps); o > 0 {
		res.violate("%d messages were invoked while another invocation of the same inbox was in flight (two workers on one inbox)", o)
	}
	p.mu.Lock()
	lastPaced := -1
	for _, s := range p.order {
		if s < 100000 {
			if s != lastPaced+1 {
				res.violate("paced messages invoked out of order or twice: %d after %d", s, lastPaced)
				break
			}
			lastPaced = s
		}
	}
	p.mu.Unlock()
	res.count("sustained_pops", int64(n))
	res.Sig = sigHash("sustained", n/50, burst/50)
	if c.n < 1 || res.Verdict == vViolated {
		res.Sample = map[string]any{"scenario": res.Desc}
	}
	in.Stop()
	return res
}

// ---- held child: a parent is stopped while one of its children is inside a long Receive ----

type heldLog struct {
	inflight int32
	overlaps int32
	mu       sync.Mutex
	evs      []string
}

type heldMsg struct {
	entered chan struct{}
	release chan struct{}
}

type heldChild struct{ lg *heldLog }

func (a *heldChild) Receive(c *actor.Context) {
	if atomic.AddInt32(&a.lg.inflight, 1) != 1 {
		atomic.AddInt32(&a.lg.overlaps, 1)
		a.lg.mu.Lock()
		a.lg.evs = append(a.lg.evs, fmt.Sprintf("OVERLAP:%T", c.Message()))
		a.lg.mu.Unlock()
	}
	defer atomic.AddInt32(&a.lg.inflight, -1)
	a.lg.mu.Lock()
	a.lg.evs = append(a.lg.evs, fmt.Sprintf("begin:%T", c.Message()))
	a.lg.mu.Unlock()
	if m, ok := c.Message().(heldMsg); ok {
		close(m.entered)
		<-m.release
	}
	a.lg.mu.Lock()
	a.lg.evs = append(a.lg.evs, fmt.Sprintf("end:%T", c.Message()))
	a.lg.mu.Unlock()
}

type heldParent struct {
	kids   []*heldLog
	kidCtx context.Context // the context child 0 is spawned with (the user's own business)
}

func (p *heldParent) Receive(c *actor.Context) {
	if _, ok := c.Message().(actor.Started); ok {
		for i, lg := range p.kids {
			lg := lg
			opts := []actor.OptFunc{actor.WithID(fmt.Sprint(i))}
			if i == 0 && p.kidCtx != nil {
				opts = append(opts, actor.WithContext(p.kidCtx))
			}
			c.SpawnChild(func() actor.Receiver { return &heldChild{lg: lg} }, "kid", opts...)
		}
	}
}

// c02Held: the parent is poisoned (or stopped) while child 0 is inside Receive for `hold`
// (4 s quick, 12 s thorough: long against any patience a supervisor may have with its
// children). However long a Receive takes, nothing else may be invoked on that actor
// meanwhile - Stopped least of all - and afterwards each child gets Stopped exactly once.
func c02Held(c *caseCtx, forC08 bool) (res caseResult) {
	r := c.rng
	wd := watchdog(c.tier)
	hold := 4 * time.Second
	if c.tier == "thorough" {
		hold = 12 * time.Second
	}
	e, err := actor.NewEngine(actor.NewEngineConfig())
	if err != nil {
		res.inconclusive("engine: %v", err)
		return
	}
	nK := 1 + r.Intn(3)
	p := &heldParent{}
	cancelKid := func() {}
	if r.Intn(2) == 0 {
		p.kidCtx, cancelKid = context.WithCancel(context.Background())
	}
	for i := 0; i < nK; i++ {
		p.kids = append(p.kids, &heldLog{})
	}
	parent := e.Spawn(func() actor.Receiver { return p }, "hp", actor.WithID("p"))
	kid0 := actor.NewPID("local", "hp/p/kid/0")
	hm := heldMsg{entered: make(chan struct{}), release: make(chan struct{})}
	e.Send(kid0, hm)
	for i := 0; i < r.Intn(4); i++ {
		e.Send(kid0, "queued behind the long one")
	}
	select {
	case <-hm.entered:
	case <-time.After(wd):
		res.inconclusive("the child did not take up its message")
		return
	}
	// the context the child was spawned with is cancelled while the child is at work: nobody's Receive is
	// cut short or doubled by that
	cancelKid()
	time.Sleep(5 * time.Millisecond)
	if o := atomic.LoadInt32(&p.kids[0].overlaps); o > 0 && !forC08 {
		res.violate("the context child 0 was spawned with was cancelled while the child was inside Receive: %d further invocation(s) of its Receive began meanwhile", o)
	}
	graceful := r.Intn(2) == 0
	var ctx context.Context
	if graceful {
		ctx = e.Poison(parent)
	} else {
		ctx = e.Stop(parent)
	}
	res.Desc = fmt.Sprintf("held child: parent with %d children stopped (graceful=%v) while child 0 is inside Receive for %v", nK, graceful, hold)
	select {
	case <-ctx.Done():
		// (C08's business: the child cannot have handled Stopped yet, or it did so inside its long Receive)
		if forC08 {
			lg0 := p.kids[0]
			lg0.mu.Lock()
			handled := false
			for _, ev := range lg0.evs {
				if ev == "end:actor.Stopped" {
					handled = true
				}
			}
			lg0.mu.Unlock()
			if !handled {
				res.violate("the parent's stop context became done while its child was still inside a Receive that began before the stop and had not handled Stopped (%s)", res.Desc)
			}
		}
	case <-time.After(hold):
	}
	lg := p.kids[0]
	lg.mu.Lock()
	during := append([]string(nil), lg.evs...)
	lg.mu.Unlock()
	close(hm.release)
	select {
	case <-ctx.Done():
	case <-time.After(wd):
		res.inconclusive("the parent did not stop after the child was released")
		return
	}
	if forC08 {
		res.Sig = sigHash("directed", 4, nK, graceful)
		return res
	}
	if o := atomic.LoadInt32(&lg.overlaps); o > 0 {
		res.violate("%d invocation(s) of the child's Receive began while its long Receive was still running (log of the child while held: %v) (%s)", o, during, res.Desc)
	}
	for i, k := range p.kids {
		k.mu.Lock()
		stopped := 0
		for _, ev := range k.evs {
			if ev == "begin:actor.Stopped" {
				stopped++
			}
		}
		last := ""
		if len(k.evs) > 0 {
			last = k.evs[len(k.evs)-1]
		}
		k.mu.Unlock()
		if stopped != 1 {
			res.violate("child %d handled Stopped %d times", i, stopped)
		} else if last != "end:actor.Stopped" {
			res.violate("child %d: something was invoked after Stopped (%s)", i, last)
		}
	}
	res.count("held_seconds", int64(hold/time.Second))
	res.Sig = sigHash("held", nK, graceful)
	if c.n < 1 || res.Verdict == vViolated {
		res.Sample = map[string]any{"scenario": res.Desc, "child_log_while_held": during}
	}
	return res
}

// ---- successor: an actor that, when it is told Stopped, spawns its successor and hands it work ----

type succLog struct {
	mu       sync.Mutex
	overlaps []string
	handled  map[int]int // generation -> user messages handled
	gens     int32
}

type succActor struct {
	gen      int
	lg       *succLog
	inflight int32
	last     int
	work     int
}

type succMsg struct{ N int }
type succEarly struct{}

func (a *succActor) Receive(c *actor.Context) {
	if atomic.AddInt32(&a.inflight, 1) != 1 {
		a.lg.mu.Lock()
		a.lg.overlaps = append(a.lg.overlaps, fmt.Sprintf("generation %d: %T began while another invocation was in flight", a.gen, c.Message()))
		a.lg.mu.Unlock()
	}
	defer atomic.AddInt32(&a.inflight, -1)
	switch m := c.Message().(type) {
	case actor.Initialized:
		// work that is already there when the actor comes up
		c.Send(c.PID(), succEarly{})
		c.Send(c.PID(), succEarly{})
	case actor.Started:
		time.Sleep(100 * time.Microsecond) // a Started handler that takes its time
	case succEarly:
		userPerturb()
	case succMsg:
		if m.N != a.last+1 {
			a.lg.mu.Lock()
			a.lg.overlaps = append(a.lg.overlaps, fmt.Sprintf("generation %d: message %d after %d", a.gen, m.N, a.last))
			a.lg.mu.Unlock()
		}
		a.last = m.N
		if m.N <= 3 {
			time.Sleep(150 * time.Microsecond) // busy right away
		}
		userPerturb()
		a.lg.mu.Lock()
		a.lg.handled[a.gen]++
		a.lg.mu.Unlock()
	case actor.Stopped:
		// hand over: the successor exists, and has work, before this actor's worker has returned
		next := &succActor{gen: a.gen + 1, lg: a.lg, work: a.work}
		atomic.AddInt32(&a.lg.gens, 1)
		p := c.Engine().Spawn(func() actor.Receiver { return next }, "succ", actor.WithID(fmt.Sprint(next.gen)))
		for i := 1; i <= a.work; i++ {
			c.Engine().Send(p, succMsg{N: i})
		}
	}
}

func c02Successor(c *caseCtx) (res caseResult) {
	r := c.rng
	wd := watchdog(c.tier)
	e, err := actor.NewEngine(actor.NewEngineConfig())
	if err != nil {
		res.inconclusive("engine: %v", err)
		return
	}
	G := 3 + r.Intn(6)
	work := 20 + r.Intn(200)
	lg := &succLog{handled: map[int]int{}}
	first := &succActor{gen: 0, lg: lg, work: work}
	pid := e.Spawn(func() actor.Receiver { return first }, "succ", actor.WithID("0"))
	for i := 1; i <= 5; i++ {
		e.Send(pid, succMsg{N: i})
	}
	res.Desc = fmt.Sprintf("successor chain: %d generations, each spawned and given %d messages from inside its predecessor's Stopped handler", G, work)
	for g := 0; g < G; g++ {
		want := work
		if g == 0 {
			want = 5
		}
		if !waitFor(wd, func() bool { lg.mu.Lock(); defer lg.mu.Unlock(); return lg.handled[g] >= want }) {
			lg.mu.Lock()
			h := lg.handled[g]
			ov := append([]string(nil), lg.overlaps...)
			lg.mu.Unlock()
			if len(ov) > 0 {
				res.violate("%s (and generation %d handled only %d of %d messages)", strings.Join(head(ov, 4), "; "), g, h, want)
			} else {
				res.inconclusive("generation %d handled %d of %d messages", g, h, want)
			}
			return
		}
		var ctx context.Context
		if r.Intn(2) == 0 {
			ctx = e.Poison(actor.NewPID("local", fmt.Sprintf("succ/%d", g)))
		} else {
			ctx = e.Stop(actor.NewPID("local", fmt.Sprintf("succ/%d", g)))
		}
		select {
		case <-ctx.Done():
		case <-time.After(wd):
			res.inconclusive("generation %d did not stop", g)
			return
		}
	}
	lg.mu.Lock()
	ov := append([]string(nil), lg.overlaps...)
	lg.mu.Unlock()
	if len(ov) > 0 {
		res.violate("%d violations of one-at-a-time delivery, e.g. %s", len(ov), strings.Join(head(ov, 4), "; "))
	}
	res.count("successor_generations", int64(G))
	res.Sig = sigHash("successor", G, work/40)
	return res
}
