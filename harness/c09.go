package main

// C09 — undeliverable messages surface exactly once as events, never silently.
//
// k monitor actors subscribe to the event stream; some further subscribers stop
// without unsubscribing. A PRNG list of sends goes to never-spawned, stopped,
// respawned-then-stopped, foreign and nil targets with various message values
// and senders, from one or several goroutines. Oracle per send and per live
// monitor: exactly one DeadLetterEvent (same message value, target, sender) or
// one EngineRemoteMissingEvent, nothing for nil; every send call returns; the
// number of events settles (marker rounds) and is bounded.

import (
	"context"
	"fmt"
	"strings"
	"sync"
	"sync/atomic"
	"time"

	"github.com/anthdm/hollywood/actor"
)

func init() {
	register(&prop{
		id:    "C09",
		level: "exploration",
		rule: "PRNG scenarios: 1-40 sends x target class {never spawned, stopped, respawned then stopped, foreign address (also with the id of a live local actor), nil} x message {string, struct, pointer, nil interface} x sender {nil, live, dead} x 0-5 live monitors x 0-3 subscribers that stopped without unsubscribing, subscribed before or between the live ones x 1-4 sender goroutines; 2-6 concurrent replies to one pending request; " +
			"every undeliverable send carries a unique tag so that events are matched by identity, not by totals. Non-trivial = at least one dead-letter and one live monitor; distinct by (target classes used, subscriber population, concurrency)",
		assumptions: []string{
			"secondary dead letters (an event forwarded to a subscriber that has just died) are legitimate and are not counted against the user's sends; they must stay bounded",
			"'finite' is decided by marker rounds through the event stream: the event count must be stable over two consecutive rounds and below n*(subscribers+2)+16",
		},
		modes: func(tier string, seed int64) []modeSpec {
			n, div := 480, 16
			if tier == "thorough" {
				// (bursts of up to 2000 dead letters and 1400 spawn/stop pairs make a case cost up to a few seconds
				// on a loaded machine: many short children instead of few long ones)
				n, div = 24000, 96
			}
			return []modeSpec{
				{name: "dl", n: n, perChild: n / div, timeout: 40 * time.Minute},
				{name: "dl-chaos", n: n / 2, perChild: n / 2 / div, timeout: 40 * time.Minute, env: []string{"VERIF_HOOK=chaos", "VERIF_HOOK_PROB=30", "VERIF_HOOK_MAXUS=50"}},
			}
		},
		run:         c09Run,
		minDistinct: 30,
	})
}

type dlPayload struct {
	Tag  int
	Text string
}

type c09Send struct {
	viaPeer    bool   // sent by a peer actor with Context.Send and the *PID value it used while the target was alive
	viaRequest bool   // sent with Engine.Request: the sender is the request's response PID
	class      string // never stopped respawned foreign nil
	target     *actor.PID
	msg        any
	tag        int
	sender     *actor.PID
	matcher    func(any) bool
}

func c09Run(c *caseCtx) (res caseResult) {
	r := c.rng
	wd := watchdog(c.tier)
	e, err := actor.NewEngine(actor.NewEngineConfig())
	if err != nil {
		res.inconclusive("engine: %v", err)
		return
	}
	nMon := r.Intn(6)
	nDead := r.Intn(4)
	var mons []*eventMonitor
	var monPIDs []*actor.PID
	// all monitors exist from the start; some subscribe now, the others only after the subscribers that
	// have no actor behind them (the order of subscription is the caller's business)
	early := nMon
	if nMon > 0 && r.Intn(2) == 0 {
		early = r.Intn(nMon + 1)
	}
	for i := 0; i < nMon; i++ {
		m := &eventMonitor{}
		p := e.Spawn(func() actor.Receiver { return m }, "mon", actor.WithID(fmt.Sprint(i)))
		if i < early {
			e.Subscribe(p)
		}
		mons = append(mons, m)
		monPIDs = append(monPIDs, p)
	}
	// a sentinel monitor that is always there: it carries the marker rounds
	sentinel := &eventMonitor{}
	sp := e.Spawn(func() actor.Receiver { return sentinel }, "mon", actor.WithID("sentinel"))
	e.Subscribe(sp)
	if !sentinel.flush(e, wd) {
		res.inconclusive("sentinel subscription not confirmed")
		return
	}
	// subscribers that die without unsubscribing
	for i := 0; i < nDead; i++ {
		p := e.SpawnFunc(func(*actor.Context) {}, "deadsub", actor.WithID(fmt.Sprint(i)))
		e.Subscribe(p)
		sentinel.flush(e, wd)
		select {
		case <-e.Poison(p).Done():
		case <-time.After(wd):
			res.inconclusive("dead subscriber did not stop")
			return
		}
	}
	// targets
	stopped := e.SpawnFunc(func(*actor.Context) {}, "tgt", actor.WithID("stopped"))
	select {
	case <-e.Poison(stopped).Done():
	case <-time.After(wd):
		res.inconclusive("target did not stop")
		return
	}
	var respawned *actor.PID
	for k := 0; k < 2; k++ {
		respawned = e.SpawnFunc(func(*actor.Context) {}, "tgt", actor.WithID("respawned"))
		select {
		case <-e.Stop(respawned).Done():
		case <-time.After(wd):
			res.inconclusive("target did not stop")
			return
		}
	}
	var liveGot int64
	live := e.SpawnFunc(func(c *actor.Context) {
		switch c.Message().(type) {
		case actor.Initialized, actor.Started, actor.Stopped:
		default:
			atomic.AddInt64(&liveGot, 1)
		}
	}, "tgt", actor.WithID("live"))
	deadSender := actor.NewPID("local", "tgt/stopped")
	// a peer that talked to a target while it was alive and keeps the PID value it used: what it sends after
	// the target has stopped is undeliverable like anything else
	type talkReq struct {
		pid  *actor.PID
		msg  any
		done chan struct{}
	}
	talker := e.SpawnFunc(func(c *actor.Context) {
		if rq, ok := c.Message().(talkReq); ok {
			c.Send(rq.pid, rq.msg)
			close(rq.done)
		}
	}, "tgt", actor.WithID("talker"))
	talk := func(pid *actor.PID, msg any) {
		rq := talkReq{pid: pid, msg: msg, done: make(chan struct{})}
		e.Send(talker, rq)
		<-rq.done
	}
	peered := e.SpawnFunc(func(*actor.Context) {}, "tgt", actor.WithID("peered"))
	talk(peered, "hello while you are there")
	select {
	case <-e.Poison(peered).Done():
	case <-time.After(wd):
		res.inconclusive("target did not stop")
		return
	}
	// subscriptions for PIDs that have no actor: never spawned, and subscribed only after the actor stopped
	nGhost := r.Intn(3)
	for i := 0; i < nGhost; i++ {
		if i%2 == 0 {
			e.Subscribe(actor.NewPID("local", fmt.Sprintf("ghostsub/%d", i)))
		} else {
			p := e.SpawnFunc(func(*actor.Context) {}, "latesub", actor.WithID(fmt.Sprint(i)))
			select {
			case <-e.Poison(p).Done():
			case <-time.After(wd):
				res.inconclusive("late subscriber did not stop")
				return
			}
			e.Subscribe(p)
		}
	}
	nDead += nGhost
	// (flushes are synchronous: every marker broadcast so far has reached the sentinel)
	markersBeforeLate := sentinel.count(func(x any) bool { _, ok := x.(markerEvent); return ok })
	for i := early; i < nMon; i++ {
		e.Subscribe(monPIDs[i])
	}
	// redundant unsubscribes (never subscribed, twice, of a subscriber that is gone) must not cost anybody an event
	if r.Intn(2) == 0 {
		e.Unsubscribe(actor.NewPID("local", "never/subscribed"))
		e.Unsubscribe(actor.NewPID("local", "deadsub/0"))
		e.Unsubscribe(actor.NewPID("local", "deadsub/0"))
		e.Unsubscribe(actor.NewPID("local", "ghostsub/0"))
		if nMon > 1 {
			// one monitor leaves properly and is unsubscribed twice
			e.Unsubscribe(monPIDs[nMon-1])
			e.Unsubscribe(monPIDs[nMon-1])
			sentinel.flush(e, wd)
			mons = mons[:nMon-1]
			nMon--
		}
	}
	// stop requests for nothing at all: no panic, and the event stream stays what it was
	if r.Intn(2) == 0 {
		if p := catchPanic(func() {
			<-e.Poison(nil).Done()
			<-e.Stop(nil).Done()
			e.SendLocal(nil, "to nobody", nil)
			e.Send(nil, "to nobody")
		}); p != "" {
			res.violate("a send / stop request with a nil PID panicked: %s", p)
			return
		}
	}
	// the sends
	n := 1 + r.Intn(40)
	nG := 1 + r.Intn(4)
	// now and then a burst, with one monitor busy (held inside Receive on its first dead letter) so that
	// more than a thousand events queue up in its inbox
	burst := r.Intn(10) == 0 && nMon > 0
	var held *eventMonitor
	if burst {
		n = 1100 + r.Intn(900)
		held = mons[0]
		held.hold = make(chan struct{})
	}
	sends := make([]c09Send, n)
	classes := map[string]int{}
	for i := range sends {
		s := &sends[i]
		s.tag = i + 1
		switch x := r.Intn(10); {
		case x < 3:
			s.class, s.target = "never", actor.NewPID("local", fmt.Sprintf("ghost/%d", r.Intn(5)))
		case x < 5:
			s.class, s.target = "stopped", actor.NewPID("local", "tgt/stopped")
		case x < 7:
			s.class, s.target = "respawned", respawned
		case x < 9:
			s.class, s.target = "foreign", actor.NewPID(fmt.Sprintf("10.0.0.%d:4000", 1+r.Intn(3)), pick(r, "far/away", "tgt/live", "mon/sentinel"))
		default:
			s.class, s.target = "nil", nil
		}
		switch r.Intn(3) {
		case 0:
			s.sender = nil
		case 1:
			s.sender = live
		default:
			s.sender = deadSender
		}
		tag := s.tag
		switch r.Intn(6) {
		case 4:
			// the undeliverable message is itself an event value (a monitor that forwards what it sees to an
			// audit actor that has gone away): a message like any other
			inner := actor.DeadLetterEvent{Target: actor.NewPID("local", fmt.Sprintf("inner/%d", tag)), Message: fmt.Sprintf("inner-%d", tag)}
			s.msg = inner
			s.matcher = func(m any) bool {
				v, ok := m.(actor.DeadLetterEvent)
				return ok && v.Target != nil && v.Target.ID == fmt.Sprintf("inner/%d", tag)
			}
		case 5:
			inner := actor.EngineRemoteMissingEvent{Target: actor.NewPID("10.9.9.9:1", fmt.Sprintf("inner/%d", tag)), Message: tag}
			s.msg = inner
			s.matcher = func(m any) bool {
				v, ok := m.(actor.EngineRemoteMissingEvent)
				return ok && v.Target != nil && v.Target.ID == fmt.Sprintf("inner/%d", tag)
			}
		case 0:
			txt := fmt.Sprintf("text-%d", tag)
			s.msg = txt
			s.matcher = func(m any) bool { v, ok := m.(string); return ok && v == txt }
		case 1:
			s.msg = dlPayload{Tag: tag, Text: "v"}
			s.matcher = func(m any) bool { v, ok := m.(dlPayload); return ok && v.Tag == tag }
		case 2:
			p := &dlPayload{Tag: tag, Text: "p"}
			s.msg = p
			s.matcher = func(m any) bool { v, ok := m.(*dlPayload); return ok && v == p }
		default:
			// a nil message value: identified by its (unique) target instead
			s.msg = nil
			if s.target != nil {
				s.target = actor.NewPID(s.target.Address, fmt.Sprintf("%s-nilmsg-%d", s.target.ID, tag))
				if s.class != "foreign" {
					s.class = "never"
				}
			}
			tgt := s.target
			s.matcher = func(m any) bool { return m == nil && tgt != nil }
		}
	}
	for i := range sends {
		s := &sends[i]
		if s.target != nil && s.msg != nil && s.class != "foreign" && r.Intn(8) == 0 {
			s.viaRequest = true
		} else if s.class == "stopped" && s.msg != nil && r.Intn(2) == 0 {
			s.viaPeer, s.target, s.sender = true, peered, talker
		}
		classes[s.class]++
	}
	// run them
	var wg sync.WaitGroup
	done := make(chan struct{})
	for g := 0; g < nG; g++ {
		g := g
		wg.Add(1)
		go func() {
			defer wg.Done()
			for i := g; i < n; i += nG {
				s := sends[i]
				switch {
				case s.viaRequest:
					// a request to nobody: the message is undeliverable like any other (the caller gets its timeout)
					resp := e.Request(s.target, s.msg, 50*time.Millisecond)
					go resp.Result()
				case s.viaPeer:
					talk(s.target, s.msg)
				case s.sender == nil && i%2 == 0:
					e.Send(s.target, s.msg)
				default:
					e.SendWithSender(s.target, s.msg, s.sender)
				}
			}
		}()
	}
	// registry writers (spawns, stops, request/response registrations) churn while the sends are under way
	churn := r.Intn(2) == 0
	type churnRec struct {
		pid *actor.PID
		ctx context.Context
	}
	churned := make([][]churnRec, 2)
	stopChurn := make(chan struct{})
	var cwg sync.WaitGroup
	if churn {
		for k := 0; k < 2; k++ {
			k := k
			cwg.Add(1)
			go func() {
				defer cwg.Done()
				for i := 0; ; i++ {
					select {
					case <-stopChurn:
						if i >= 700 { // more than a thousand removals per case, whatever the sends take
							return
						}
					default:
					}
					p := e.SpawnFunc(func(*actor.Context) {}, "churn", actor.WithID(fmt.Sprintf("%d-%d", k, i)))
					churned[k] = append(churned[k], churnRec{p, e.Stop(p)})
					if i > 3000 {
						return
					}
				}
			}()
		}
	}
	go func() { wg.Wait(); close(done) }()
	res.Desc = fmt.Sprintf("burst=%v churn=%v sends=%d goroutines=%d monitors=%d deadSubscribers=%d classes=%v", burst, churn, n, nG, nMon, nDead, classes)
	select {
	case <-done:
		close(stopChurn)
	case <-time.After(wd):
		close(stopChurn)
		// decide on state: blocked for good, or merely slow?
		rest, where := atRest(3 * time.Second)
		if held != nil {
			close(held.hold)
		}
		if rest {
			res.violate("a Send call never returned: the process is at rest (%s): sending must never block the caller (%s)", where, res.Desc)
		} else {
			res.inconclusive("the sends did not return within the watchdog, the process is not at rest: %s (%s)", where, res.Desc)
		}
		return
	}
	if held != nil {
		close(held.hold)
	}
	cdone := make(chan struct{})
	go func() { cwg.Wait(); close(cdone) }()
	select {
	case <-cdone:
	case <-time.After(wd):
		if rest, where := atRest(3 * time.Second); rest {
			res.violate("Spawn/Stop calls running next to the dead-letter sends never returned: the process is at rest (%s) (%s)", where, res.Desc)
		} else {
			res.inconclusive("the spawn/stop churn did not finish within the watchdog, the process is not at rest: %s (%s)", where, res.Desc)
		}
		return
	}
	// the actors stopped by the churn: once their stop contexts are done they are gone from the registry (a
	// message to one of them would otherwise vanish instead of becoming a dead letter)
	nChurned := 0
	for k := range churned {
		for _, cr := range churned[k] {
			select {
			case <-cr.ctx.Done():
			case <-time.After(wd):
				res.inconclusive("a churn actor did not stop")
				return
			}
			nChurned++
			kind, id := idKind(cr.pid.ID)
			if e.Registry.GetPID(kind, id) != nil {
				res.violate("actor %s was stopped (its stop context is done) but is still registered after %d spawn/stop pairs by two goroutines: messages to it vanish silently instead of becoming dead letters", cr.pid.ID, len(churned[0])+len(churned[1]))
				return
			}
		}
	}
	res.count("churned_actors", int64(nChurned))
	// settle: marker rounds until the sentinel's event count is stable
	bound := n*(nMon+nDead+3) + 16
	prev, stable := -1, 0
	for round := 0; round < 50 && stable < 2; round++ {
		ok := sentinel.flush(e, 5*time.Second)
		if !ok && sentinel.count(func(x any) bool { _, is := x.(actor.DeadLetterEvent); return is }) <= bound {
			ok = sentinel.flush(e, wd)
		}
		if !ok {
			cnt := sentinel.count(func(x any) bool { _, is := x.(actor.DeadLetterEvent); return is })
			if cnt <= bound {
				// decide on state: does a FRESH subscriber still get events? Then the stream works and has dropped
				// its old subscribers (they never unsubscribed)
				fresh := &eventMonitor{}
				fp := e.Spawn(func() actor.Receiver { return fresh }, "mon", actor.WithID(fmt.Sprintf("fresh%d", round)))
				e.Subscribe(fp)
				if fresh.flush(e, wd/3) {
					// The stream works, and the marker the fresh monitor has seen was broadcast to the sentinel as well
					// (behind everything broadcast before). A sentinel that is still working through its backlog is slow,
					// not dropped: "never" is decided on state - the process has come to rest and the sentinel still
					// does not hold that marker.
					last := atomic.LoadInt64(&markerCounter)
					has := func() bool {
						return sentinel.count(func(x any) bool { mk, is := x.(markerEvent); return is && mk.N == last }) > 0
					}
					prog := func() int64 { return int64(sentinel.count(func(any) bool { return true })) }
					for tries := 0; ; tries++ {
						if fin, _ := settle(4*wd, 20*time.Second, has, prog); fin {
							break
						}
						if rest, where := atRest(3 * time.Second); rest && !has() {
							res.violate("subscribers that never unsubscribed stopped receiving events (a freshly subscribed monitor does receive them, and the process has come to rest: %s): the event stream lost its subscribers, undeliverable messages now surface to nobody (%s)", where, res.Desc)
							return
						} else if tries >= 2 {
							res.inconclusive("the sentinel has not caught up with the event stream and the process is not at rest: %s (%s)", where, res.Desc)
							return
						}
					}
					ok = true
				}
			}
			if !ok {
				if cnt > bound {
					res.violate("the event stream does not settle: %d events after %d sends and still growing (bound %d)", cnt, n, bound)
				} else {
					res.inconclusive("marker did not come back through the event stream")
				}
				return
			}
		}
		cnt := sentinel.count(func(x any) bool { _, ok := x.(actor.DeadLetterEvent); return ok })
		if cnt == prev {
			stable++
		} else {
			stable = 0
		}
		prev = cnt
		if cnt > bound {
			res.violate("%d DeadLetterEvents after %d sends (bound %d): a finite number of sends must produce a finite number of events", cnt, n, bound)
			return
		}
	}
	if stable < 2 {
		res.violate("the number of DeadLetterEvents was still changing after 50 marker rounds (%d)", prev)
		return
	}
	// each live monitor: flush it (the marker is an event, it reaches every subscriber)
	all := append([]*eventMonitor{sentinel}, mons...)
	for mi, m := range all {
		missed := 0
		if mi > early { // all[0] is the sentinel, all[1+i] is monitor i
			missed = markersBeforeLate
		}
		if !waitFor(wd, func() bool {
			return m.count(func(x any) bool { _, ok := x.(markerEvent); return ok }) >= sentinel.count(func(x any) bool { _, ok := x.(markerEvent); return ok })-missed
		}) {
			res.inconclusive("monitor %d did not receive the markers", mi)
			return
		}
		evs := m.snapshot()
		for _, s := range sends {
			dl, rm := 0, 0
			for _, ev := range evs {
				switch x := ev.(type) {
				case actor.DeadLetterEvent:
					if s.matcher(x.Message) && (s.msg != nil || (x.Target != nil && s.target != nil && x.Target.Equals(s.target))) {
						dl++
						if s.target == nil || x.Target == nil || !x.Target.Equals(s.target) {
							res.violate("monitor %d: DeadLetterEvent for send #%d names target %v, sent to %v", mi, s.tag, x.Target, s.target)
						}
						if s.viaRequest {
							if x.Sender == nil || !strings.HasPrefix(x.Sender.ID, "response/") {
								res.violate("monitor %d: DeadLetterEvent for request #%d carries sender %v, expected the request's response PID", mi, s.tag, x.Sender)
							}
						} else if pidStr(x.Sender) != pidStr(s.sender) {
							res.violate("monitor %d: DeadLetterEvent for send #%d carries sender %v, sent with %v", mi, s.tag, x.Sender, s.sender)
						}
					}
				case actor.EngineRemoteMissingEvent:
					if s.matcher(x.Message) && (s.msg != nil || (x.Target != nil && s.target != nil && x.Target.Equals(s.target))) {
						rm++
						if s.target == nil || !x.Target.Equals(s.target) || pidStr(x.Sender) != pidStr(s.sender) {
							res.violate("monitor %d: EngineRemoteMissingEvent for send #%d carries target %v sender %v, sent to %v with %v", mi, s.tag, x.Target, x.Sender, s.target, s.sender)
						}
					}
				}
			}
			wantDL, wantRM := 0, 0
			switch s.class {
			case "never", "stopped", "respawned":
				wantDL = 1
			case "foreign":
				wantRM = 1
			}
			if dl != wantDL || rm != wantRM {
				res.violate("monitor %d: send #%d (%s target %v, message %T) produced %d DeadLetterEvent(s) and %d EngineRemoteMissingEvent(s), expected %d and %d", mi, s.tag, s.class, s.target, s.msg, dl, rm, wantDL, wantRM)
			}
		}
		res.count("monitor_logs_checked", 1)
	}
	if g := atomic.LoadInt64(&liveGot); g != 0 {
		res.violate("the local actor tgt/live received %d message(s); nothing was sent to it (messages for a foreign address with the same id must not be delivered locally)", g)
	}
	// replies to one request from several goroutines at once: Result() takes one, and no sender may be held up
	if r.Intn(2) == 0 && res.Verdict != vViolated {
		k := 2 + r.Intn(5)
		resp := actor.NewResponse(e, 60*time.Second)
		e.SpawnProc(resp)
		var returned int64
		for g := 0; g < k; g++ {
			g := g
			go func() {
				e.SendWithSender(resp.PID(), &dlPayload{Tag: 900000 + g}, live)
				atomic.AddInt64(&returned, 1)
			}()
		}
		prog := func() int64 { return atomic.LoadInt64(&returned) }
		if fin, _ := settle(wd, 10*time.Second, func() bool { return prog() == int64(k) }, prog); !fin {
			if rest, where := atRest(3 * time.Second); rest {
				res.violate("%d goroutines sent a reply to the same pending request: %d Send calls returned, the others are blocked and the process is at rest (%s): sending must never block the caller", k, prog(), where)
			} else {
				res.inconclusive("%d of %d replies sent (%s)", prog(), k, where)
			}
			return
		}
		v, err := resp.Result()
		if rp, ok := v.(*dlPayload); err != nil || !ok || rp.Tag < 900000 || rp.Tag >= 900000+k {
			res.violate("%d replies were sent to a pending request, Result() returned (%v, %v)", k, v, err)
		}
		res.count("concurrent_reply_rounds", 1)
		res.count("concurrent_replies", int64(k))
	}
	res.count("sends", int64(n))
	for _, s := range sends {
		if s.viaPeer {
			res.count("sends_by_a_peer_actor_that_knew_the_target_alive", 1)
		}
	}
	res.count("dead_letters_expected", int64(classes["never"]+classes["stopped"]+classes["respawned"]))
	res.count("remote_missing_expected", int64(classes["foreign"]))
	res.count("dead_subscribers", int64(nDead))
	if classes["never"]+classes["stopped"]+classes["respawned"] > 0 {
		res.Sig = sigHash("dl", classes["never"] > 0, classes["stopped"] > 0, classes["respawned"] > 0, classes["foreign"] > 0, classes["nil"] > 0, nMon, nDead, nG)
	}
	if c.n < 2 || res.Verdict == vViolated {
		var ss []string
		for _, s := range sends {
			ss = append(ss, fmt.Sprintf("#%d %s -> %v msg=%T sender=%v viaPeer=%v", s.tag, s.class, s.target, s.msg, s.sender, s.viaPeer))
		}
		res.Sample = map[string]any{"scenario": res.Desc, "sends": ss, "dead_letter_events_seen_by_sentinel": prev}
	}
	_ = monPIDs
	return res
}
