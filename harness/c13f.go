package main

// C13, mode "filter": a chain [tracer, filter, tracer] in front of the receiver.
// The filter does not hand on some deliveries (a guard / de-duplication /
// authorisation middleware). What the receiver sees must have come through the
// whole chain, so a delivery the filter swallowed never reaches it - lifecycle
// messages included - and for every other delivery all three layers run once,
// outermost first.

import (
	"fmt"
	"sync"
	"time"

	"github.com/anthdm/hollywood/actor"
)

type fltMsg struct {
	ID    int
	Crash bool
}

type fltLog struct {
	mu  sync.Mutex
	evs []string
}

func (l *fltLog) add(s string) {
	l.mu.Lock()
	l.evs = append(l.evs, s)
	l.mu.Unlock()
}

func fltKey(m any) string {
	switch x := m.(type) {
	case actor.Initialized:
		return "Initialized"
	case actor.Started:
		return "Started"
	case actor.Stopped:
		return "Stopped"
	case *fltMsg:
		return fmt.Sprintf("m%d", x.ID)
	}
	return fmt.Sprintf("%T", m)
}

func c13Filter(c *caseCtx) (res caseResult) {
	r := c.rng
	wd := watchdog(c.tier)
	e, err := actor.NewEngine(actor.NewEngineConfig())
	if err != nil {
		res.inconclusive("engine: %v", err)
		return
	}
	lg := &fltLog{}
	dropLife := map[string]bool{}
	for _, k := range []string{"Initialized", "Started", "Stopped"} {
		if r.Intn(3) == 0 {
			dropLife[k] = true
		}
	}
	mod := pick(r, 0, 2, 3)
	drops := func(m any) bool {
		switch x := m.(type) {
		case *fltMsg:
			return mod > 0 && x.ID%mod == 0
		default:
			return dropLife[fltKey(m)]
		}
	}
	tracer := func(layer int) actor.MiddlewareFunc {
		return func(next actor.ReceiveFunc) actor.ReceiveFunc {
			return func(ctx *actor.Context) {
				lg.add(fmt.Sprintf("enter%d:%s", layer, fltKey(ctx.Message())))
				defer lg.add(fmt.Sprintf("exit%d", layer))
				next(ctx)
			}
		}
	}
	filter := func(next actor.ReceiveFunc) actor.ReceiveFunc {
		return func(ctx *actor.Context) {
			if drops(ctx.Message()) {
				return
			}
			next(ctx)
		}
	}
	// a recover-middleware: an inner panic swallowed by an outer layer is one more way a delivery ends early
	n := 3 + r.Intn(12)
	var msgs []*fltMsg
	crashes := 0
	for i := 1; i <= n; i++ {
		m := &fltMsg{ID: i}
		if r.Intn(5) == 0 && crashes < 3 {
			m.Crash = true
			crashes++
		}
		msgs = append(msgs, m)
	}
	gate := make(chan struct{})
	recv := func(ctx *actor.Context) {
		lg.add("recv:" + fltKey(ctx.Message()))
		if m, ok := ctx.Message().(*fltMsg); ok {
			if m.ID == 0 {
				<-gate
			}
			if m.Crash {
				panic("verif: scripted failure")
			}
		}
	}
	pid := e.SpawnFunc(recv, "flt", actor.WithID("a"), actor.WithMaxRestarts(10), actor.WithRestartDelay(pick(r, 0, 200*time.Microsecond)),
		actor.WithInboxSize(pick(r, 1, 8, 1024)), actor.WithMiddleware(tracer(0), filter, tracer(2)))
	batch := r.Intn(2) == 0
	if batch {
		e.Send(pid, &fltMsg{ID: 0}) // never dropped when mod == 0; if dropped the batch simply is not pinned
	}
	for _, m := range msgs {
		e.Send(pid, m)
	}
	close(gate)
	var done <-chan struct{}
	graceful := r.Intn(3) != 0
	if graceful {
		done = e.Poison(pid).Done()
	} else {
		done = e.Stop(pid).Done()
	}
	res.Desc = fmt.Sprintf("filter chain: drops lifecycle %v and user messages with id%%%d==0; %d messages, %d failures, graceful=%v", keysOf(dropLife), mod, n, crashes, graceful)
	select {
	case <-done:
	case <-time.After(wd):
		if rest, where := atRest(3 * time.Second); rest {
			res.violate("the actor never stopped and the process is at rest (%s) (%s)", where, res.Desc)
		} else {
			res.inconclusive("stop context not done (%s)", where)
		}
		return
	}
	lg.mu.Lock()
	evs := append([]string(nil), lg.evs...)
	lg.mu.Unlock()
	// parse blocks
	seen := map[string]int{}
	i := 0
	blocks, dropped := 0, 0
	for i < len(evs) && res.Verdict != vViolated {
		if len(evs[i]) < 7 || evs[i][:7] != "enter0:" {
			res.violate("event %d is %q where a delivery should begin with the outermost middleware (the receiver or an inner layer ran outside the chain); log around: %v", i, evs[i], around(evs, i))
			break
		}
		key := evs[i][7:]
		seen[key]++
		want := []string{"enter0:" + key, "enter2:" + key, "recv:" + key, "exit2", "exit0"}
		isDrop := false
		switch key {
		case "Initialized", "Started", "Stopped":
			isDrop = dropLife[key]
		default:
			var id int
			fmt.Sscanf(key, "m%d", &id)
			isDrop = mod > 0 && id%mod == 0
		}
		if isDrop {
			want = []string{"enter0:" + key, "exit0"}
			dropped++
		}
		for k, w := range want {
			if i+k >= len(evs) || evs[i+k] != w {
				got := "end of log"
				if i+k < len(evs) {
					got = evs[i+k]
				}
				what := "passes the filter: every layer and then the receiver must run exactly once"
				if isDrop {
					what = "is swallowed by the filter: nothing behind the filter may run, the receiver least of all"
				}
				res.violate("delivery of %s %s; expected %v, got %q at position %d of the block (log around: %v)", key, what, want, got, k, around(evs, i+k))
				break
			}
		}
		i += len(want)
		blocks++
	}
	if res.Verdict != vViolated {
		for _, m := range msgs {
			if seen[fmt.Sprintf("m%d", m.ID)] != 1 && graceful {
				res.violate("message %d entered the chain %d times, sent once before a graceful stop", m.ID, seen[fmt.Sprintf("m%d", m.ID)])
				break
			}
		}
	}
	res.count("filter_deliveries", int64(blocks))
	res.count("filter_swallowed", int64(dropped))
	if dropped > 0 {
		res.Sig = sigHash("flt", keysOf(dropLife), mod, crashes, graceful, batch)
	}
	if c.n < 2 || res.Verdict == vViolated {
		res.Sample = map[string]any{"scenario": res.Desc, "log_head": head(evs, 40)}
	}
	return res
}

func keysOf(m map[string]bool) []string {
	var out []string
	for _, k := range []string{"Initialized", "Started", "Stopped"} {
		if m[k] {
			out = append(out, k)
		}
	}
	return out
}

func around(evs []string, i int) []string {
	lo, hi := i-4, i+4
	if lo < 0 {
		lo = 0
	}
	if hi > len(evs) {
		hi = len(evs)
	}
	return evs[lo:hi]
}

func head(evs []string, n int) []string {
	if len(evs) > n {
		return evs[:n]
	}
	return evs
}
