package main

// Script generators and registrations for the properties decided with the
// scripted single-actor scenario: C04 (lifecycle), C05 (crash containment,
// enumerated crash points), C06 (restart budget, enumerated), C13 (middleware).
// C07 has its own file (scripts + concurrent callers).

import (
	"fmt"
	"math/rand"
	"time"
)

type idGen struct{ n int }

func (g *idGen) next() int { g.n++; return g.n }

// genSegments builds gate-delimited segments from a list of item lists.
func buildSegments(ids *idGen, bodies ...[]item) [][]item {
	segs := [][]item{{{Kind: itGate, ID: ids.next()}}}
	for i, b := range bodies {
		seg := append([]item(nil), b...)
		if i < len(bodies)-1 {
			seg = append(seg, item{Kind: itGate, ID: ids.next()})
		}
		if len(seg) == 0 {
			seg = append(seg, item{Kind: itMsg, ID: ids.next()})
		}
		segs = append(segs, seg)
	}
	return segs
}

func msgs(ids *idGen, n int) []item {
	out := make([]item, n)
	for i := range out {
		out[i] = item{Kind: itMsg, ID: ids.next()}
	}
	return out
}

func randDelay(r *rand.Rand) time.Duration {
	return pick(r, 0, 0, 50*time.Microsecond, 300*time.Microsecond, time.Millisecond)
}

// randomScript: a general script mixing everything.
func randomScript(r *rand.Rand, pills bool) *scriptSpec {
	ids := &idGen{}
	spec := &scriptSpec{
		InboxSize:    pick(r, 1, 2, 3, 8, 1024),
		MaxRestarts:  r.Intn(5),
		RestartDelay: randDelay(r),
		MW:           0,
		CrashInit:    map[int]bool{},
		CrashStart:   map[int]bool{},
		WithSender:   r.Intn(2) == 0,
	}
	// lifecycle crashes
	if r.Intn(4) == 0 {
		for k := 0; k < 1+r.Intn(2); k++ {
			inc := 1 + r.Intn(4)
			if r.Intn(2) == 0 {
				spec.CrashInit[inc] = true
			} else {
				spec.CrashStart[inc] = true
			}
		}
	}
	if len(spec.CrashInit) == 0 && r.Intn(3) == 0 {
		n := 1 + r.Intn(5)
		for i := 0; i < n; i++ {
			k := itMsg
			if r.Intn(5) == 0 {
				k = itCrash
			}
			spec.Early = append(spec.Early, item{Kind: k, ID: ids.next()})
		}
	}
	nseg := 1 + r.Intn(3)
	var bodies [][]item
	pillPlaced := false
	for s := 0; s < nseg; s++ {
		n := r.Intn(9)
		if r.Intn(25) == 0 {
			measureBatchMax()
			n = pick(r, batchMax-2, batchMax-1, batchMax, batchMax+1, batchMax+900)
		}
		var b []item
		for i := 0; i < n; i++ {
			x := r.Intn(100)
			switch {
			case x < 14 && n < 100:
				k := itCrash
				if r.Intn(5) == 0 {
					k = itCrashI
				}
				b = append(b, item{Kind: k, ID: ids.next()})
			case x < 20 && pills && (s == nseg-1 || r.Intn(3) == 0):
				k := itPoison
				if r.Intn(3) == 0 {
					k = itStop
				}
				b = append(b, item{Kind: k, ID: ids.next()})
				pillPlaced = true
			default:
				b = append(b, item{Kind: itMsg, ID: ids.next()})
			}
		}
		if n >= 4000 {
			// one crash or pill at an interesting place of a big batch
			pos := pick(r, 0, 1, batchMax-2, batchMax-1, n-1, r.Intn(n))
			if pos >= n {
				pos = n - 1
			}
			if pills && r.Intn(2) == 0 {
				b[pos] = item{Kind: itPoison, ID: ids.next()}
			} else {
				b[pos] = item{Kind: itCrash, ID: ids.next()}
			}
		}
		bodies = append(bodies, b)
	}
	_ = pillPlaced
	spec.Segments = buildSegments(ids, bodies...)
	// late senders behind one crash in a gate-terminated segment
	if r.Intn(3) == 0 {
		for k, seg := range spec.Segments {
			if k == 0 || len(seg) > 3000 {
				continue
			}
			for _, it := range seg {
				if it.Kind == itCrash && spec.LateFor == 0 {
					spec.LateFor = it.ID
					spec.Late = msgs(ids, 1+r.Intn(4))
				}
			}
		}
	}
	if r.Intn(6) == 0 {
		spec.Children = 1 + r.Intn(3)
	}
	if r.Intn(5) == 0 {
		spec.CtxCancel = 1 + r.Intn(2)
	}
	return spec
}

// ---------------------------------------------------------------------------
// C04

func init() {
	register(&prop{
		id:    "C04",
		level: "exploration",
		rule: "scripts (PRNG) of user messages, crashing messages, crashes in Initialized/Started, Poison/Stop, early sends racing Spawn, late sends during the restart delay; batch boundaries pinned by gate messages so that a sequential reference model predicts the exact per-incarnation delivery log; " +
			"a case is non-trivial if the actor was restarted or ended; distinct by the shape of the expected trace (per delivery: incarnation and kind) together with the engine events",
		assumptions: []string{
			"the reference model (script.go: simulate) is the specification of one actor's life, written from the property statements, not derived from the code",
			"gate messages block inside Receive; a segment sent while a gate is held is taken by the worker as one batch (<= 4096): the model splits larger segments at 4096",
			"a watchdog expiry is inconclusive unless the deliveries already made deviate from the model",
		},
		modes: func(tier string, seed int64) []modeSpec {
			n := 900
			if tier == "thorough" {
				n = 30000
			}
			return []modeSpec{
				{name: "script", n: n, perChild: n / 16, timeout: 20 * time.Minute},
				{name: "script-chaos", n: n / 2, perChild: n / 32, timeout: 20 * time.Minute, env: []string{"VERIF_HOOK=chaos", "VERIF_HOOK_PROB=30", "VERIF_HOOK_MAXUS=50"}},
			}
		},
		run: func(c *caseCtx) caseResult {
			spec := randomScript(c.rng, true)
			if c.n%5 == 0 {
				spec = directedLifecycle(c.n/5, c.rng)
			}
			if c.n%4 == 3 {
				spec.MW = 1 + c.rng.Intn(2) // the lifecycle must hold for actors with middleware as well
			}
			out := runScript(c, spec)
			if out.sim.restarts == 0 && !out.sim.stopped {
				out.res.Sig = ""
			}
			return out.res
		},
		minDistinct: 50,
	})
}

// directedLifecycle: the scenarios the design singles out.
func directedLifecycle(k int, r *rand.Rand) *scriptSpec {
	ids := &idGen{}
	spec := &scriptSpec{InboxSize: pick(r, 1, 8, 1024), MaxRestarts: 3, RestartDelay: randDelay(r), CrashInit: map[int]bool{}, CrashStart: map[int]bool{}}
	switch k % 8 {
	case 0: // pill directly behind a crash, sends during the restart delay
		c := item{Kind: itCrash, ID: ids.next()}
		spec.Segments = buildSegments(ids, []item{c, {Kind: itPoison, ID: ids.next()}}, msgs(ids, 3))
		spec.RestartDelay = time.Millisecond
		spec.LateFor = c.ID
		spec.Late = msgs(ids, 3)
	case 1: // stop pill in the replay buffer
		spec.Segments = buildSegments(ids, append(append(msgs(ids, 2), item{Kind: itCrash, ID: ids.next()}), append(msgs(ids, 2), item{Kind: itStop, ID: ids.next()}, item{Kind: itMsg, ID: ids.next()})...))
	case 2: // crash in Started of the first incarnation, messages sent early
		spec.CrashStart[1] = true
		spec.Early = msgs(ids, 3)
		spec.Segments = buildSegments(ids, msgs(ids, 2))
	case 3: // budget exhaustion in one batch
		spec.MaxRestarts = 1
		spec.Segments = buildSegments(ids, []item{{Kind: itCrash, ID: ids.next()}, {Kind: itMsg, ID: ids.next()}, {Kind: itCrash, ID: ids.next()}, {Kind: itMsg, ID: ids.next()}})
	case 4: // crash while draining for a poison pill
		spec.Segments = buildSegments(ids, []item{{Kind: itMsg, ID: ids.next()}, {Kind: itPoison, ID: ids.next()}, {Kind: itMsg, ID: ids.next()}, {Kind: itCrash, ID: ids.next()}, {Kind: itMsg, ID: ids.next()}})
	case 5: // crash in Initialized of a later incarnation with a buffer pending
		spec.CrashInit[2] = true
		spec.Segments = buildSegments(ids, append([]item{{Kind: itCrash, ID: ids.next()}}, msgs(ids, 3)...), msgs(ids, 2))
	case 6: // early sends only
		spec.Early = msgs(ids, 1+r.Intn(6))
		spec.Segments = buildSegments(ids, msgs(ids, 1))
	default: // budget exhausted during the replay, backlog behind
		spec.MaxRestarts = 2
		spec.Segments = buildSegments(ids, []item{{Kind: itCrash, ID: ids.next()}, {Kind: itCrash, ID: ids.next()}, {Kind: itCrash, ID: ids.next()}, {Kind: itMsg, ID: ids.next()}, {Kind: itPoison, ID: ids.next()}})
	}
	return spec
}

// ---------------------------------------------------------------------------
// C05 — enumerated crash points

type c05Case struct {
	L        int
	pos      []int
	handler  string // user | init | started
	inbox    int
	late     bool
	nested   int // additional lifecycle crash in the incarnation that replays (0 none, 1 init, 2 started)
	maxR     int
	bigBatch bool
	pill     int // >0: position of a graceful poison pill inside the batch (a stop request queued among the messages)
}

func c05Grid(tier string) []c05Case {
	var grid []c05Case
	inboxes := []int{1, 8, 1024}
	for L := 1; L <= 8; L++ {
		if tier != "thorough" && L > 6 {
			break
		}
		var subsets [][]int
		for a := 0; a < L; a++ {
			subsets = append(subsets, []int{a})
			for b := a + 1; b < L; b++ {
				subsets = append(subsets, []int{a, b})
			}
		}
		for si, ps := range subsets {
			for ii, ib := range inboxes {
				if tier != "thorough" && (si+ii)%3 != 0 {
					continue
				}
				grid = append(grid, c05Case{L: L, pos: ps, handler: "user", inbox: ib, late: (si+ii)%2 == 0, maxR: 3})
			}
		}
	}
	// lifecycle handlers, repeated failures within the budget, failure during replay
	for _, h := range []string{"init", "started"} {
		for rep := 1; rep <= 3; rep++ {
			for _, ib := range inboxes {
				grid = append(grid, c05Case{L: 3, pos: []int{1}, handler: h, inbox: ib, nested: rep, maxR: 4})
			}
		}
	}
	// a stop request queued in the same batch: the failure(s) happen ahead of it, while draining for it, or both;
	// the messages behind a failure still arrive in order, exactly once
	for L := 3; L <= 6; L++ {
		for pill := 1; pill < L; pill++ {
			for a := 0; a < L; a++ {
				if a == pill {
					continue
				}
				grid = append(grid, c05Case{L: L, pos: []int{a}, handler: "user", inbox: 8, maxR: 3, pill: pill})
				for b := a + 1; b < L; b++ {
					if b == pill || (tier != "thorough" && (a+b+pill+L)%2 != 0) {
						continue
					}
					grid = append(grid, c05Case{L: L, pos: []int{a, b}, handler: "user", inbox: 8, maxR: 3, pill: pill})
				}
			}
		}
	}
	// every single position of big batches
	measureBatchMax()
	bigs := []int{batchMax - 1, batchMax, batchMax + 1}
	for _, L := range bigs {
		positions := []int{0, 1, L / 2, L - 2, L - 1, batchMax - 2, batchMax - 1}
		if tier == "thorough" {
			positions = nil
			for p := 0; p < L; p += 97 {
				positions = append(positions, p)
			}
			positions = append(positions, L-1, batchMax-2, batchMax-1)
		}
		for _, p := range positions {
			if p >= L {
				continue
			}
			grid = append(grid, c05Case{L: L, pos: []int{p}, handler: "user", inbox: 8, maxR: 3, bigBatch: true})
		}
	}
	return grid
}

func c05Spec(g c05Case, r *rand.Rand) *scriptSpec {
	ids := &idGen{}
	spec := &scriptSpec{InboxSize: g.inbox, MaxRestarts: g.maxR, RestartDelay: pick(r, 0, 100*time.Microsecond, time.Millisecond), CrashInit: map[int]bool{}, CrashStart: map[int]bool{}, WithSender: true}
	body := msgs(ids, g.L)
	for _, p := range g.pos {
		body[p].Kind = itCrash
	}
	if g.pill > 0 {
		body[g.pill].Kind = itPoison
	}
	switch g.handler {
	case "init":
		// the incarnation(s) created by the user crash fail again in Initialized
		for k := 0; k < g.nested; k++ {
			spec.CrashInit[2+k] = true
		}
	case "started":
		for k := 0; k < g.nested; k++ {
			spec.CrashStart[2+k] = true
		}
	}
	spec.Segments = buildSegments(ids, body, msgs(ids, 2))
	if g.late {
		spec.LateFor = body[g.pos[0]].ID
		spec.Late = msgs(ids, 2+r.Intn(30))
		if spec.RestartDelay == 0 {
			spec.RestartDelay = 300 * time.Microsecond
		}
	}
	return spec
}

func init() {
	register(&prop{
		id:    "C05",
		level: "fault_enumeration",
		rule: "enumerated crash points: batch length L in 1..8 (quick: 1..6, every third combination) x every set of <=2 failing positions x inbox size {1,8,1024} x late senders during the restart delay; failures in Initialized/Started of the restarted incarnation repeated 1..3 times within the budget; a graceful stop request at every position of batches of 3..6 combined with 1-2 failures ahead of it and behind it; selected positions of batches around the inbox batch limit; " +
			"each case is checked against the sequential model (Stopped to the failed incarnation, ActorRestartedEvent with count k, fresh receiver initialised, the messages behind the failed one in order exactly once ahead of later sends, the failing message not redelivered, process and bystander alive); distinct by (L, failing positions, handler, inbox size, late, position of the stop request)",
		assumptions: []string{
			"panics inside the Stopped handler are outside the property's quantifier and are not injected",
			"same reference model and gate technique as C04",
		},
		modes: func(tier string, seed int64) []modeSpec {
			n := len(c05Grid(tier))
			return []modeSpec{
				{name: "grid", n: n, perChild: (n + 15) / 16, timeout: 30 * time.Minute, exhaustive: true},
				{name: "grid-chaos", n: n, perChild: (n + 15) / 16, timeout: 30 * time.Minute, exhaustive: true, env: []string{"VERIF_HOOK=chaos", "VERIF_HOOK_PROB=30", "VERIF_HOOK_MAXUS=50"}},
			}
		},
		run: func(c *caseCtx) caseResult {
			grid := c05Grid(c.tier)
			g := grid[c.n%len(grid)]
			spec := c05Spec(g, c.rng)
			if c.n%4 == 3 {
				spec.MW = 1 + c.rng.Intn(2)
			}
			out := runScript(c, spec)
			out.res.Sig = sigHash("c05", g.L, g.pos, g.handler, g.inbox, g.late, g.nested, g.pill)
			out.res.Desc = fmt.Sprintf("L=%d crash@%v handler=%s nested=%d inbox=%d late=%v :: %s", g.L, g.pos, g.handler, g.nested, g.inbox, g.late, spec.String())
			return out.res
		},
		minDistinct: 50,
	})
}

// ---------------------------------------------------------------------------
// C06 — restart budget

type c06Case struct {
	maxR      int
	placement string // batch | fresh | replay | started | init
	backlog   string // empty | backlog | pill
	children  int
	inbox     int
}

func c06Grid(tier string) []c06Case {
	var grid []c06Case
	for maxR := 0; maxR <= 4; maxR++ {
		for _, pl := range []string{"batch", "fresh", "replay", "started", "init", "internal"} {
			for _, bl := range []string{"empty", "backlog", "pill"} {
				for _, ch := range []int{0, 2} {
					for _, ib := range []int{1, 1024} {
						if tier != "thorough" && (maxR+len(pl)+len(bl)+ch+ib)%2 == 1 && maxR > 1 {
							continue
						}
						grid = append(grid, c06Case{maxR: maxR, placement: pl, backlog: bl, children: ch, inbox: ib})
					}
				}
			}
		}
	}
	return grid
}

func c06Spec(g c06Case, r *rand.Rand) *scriptSpec {
	ids := &idGen{}
	spec := &scriptSpec{InboxSize: g.inbox, MaxRestarts: g.maxR, RestartDelay: pick(r, 0, 100*time.Microsecond), CrashInit: map[int]bool{}, CrashStart: map[int]bool{}, Children: g.children, ViaPeer: g.children == 0}
	var tail []item
	switch g.backlog {
	case "backlog":
		tail = msgs(ids, 3)
	case "pill":
		tail = append(msgs(ids, 1), item{Kind: itPoison, ID: ids.next()}, item{Kind: itMsg, ID: ids.next()})
	}
	crash := func() item { return item{Kind: itCrash, ID: ids.next()} }
	switch g.placement {
	case "batch", "replay":
		// all maxR+1 crashes in one batch: the first one hits in the fresh batch, the others while the restart buffer is replayed
		var b []item
		b = append(b, msgs(ids, 1)...)
		for i := 0; i <= g.maxR; i++ {
			b = append(b, crash())
			if g.placement == "replay" {
				b = append(b, msgs(ids, 1)...)
			}
		}
		b = append(b, tail...)
		spec.Segments = buildSegments(ids, b, msgs(ids, 2))
		if g.inbox == 1024 && g.maxR > 0 {
			// messages sent during the first restart delay sit in the ring when the budget runs out: they must never be delivered
			for _, it := range b {
				if it.Kind == itCrash {
					spec.LateFor = it.ID
					break
				}
			}
			spec.Late = msgs(ids, 2)
			spec.RestartDelay = 2 * time.Millisecond
		}
	case "fresh":
		// one crash per segment: the exhausting panic is in a fresh batch
		var bodies [][]item
		for i := 0; i <= g.maxR; i++ {
			b := []item{crash()}
			if i == g.maxR {
				b = append(b, tail...)
			} else {
				b = append(b, msgs(ids, 1)...)
			}
			bodies = append(bodies, b)
		}
		bodies = append(bodies, msgs(ids, 2))
		spec.Segments = buildSegments(ids, bodies...)
		if g.maxR >= 1 && g.maxR <= 2 && g.inbox == 1 && g.backlog != "backlog" {
			// failures that are far apart (an actor that fails once in a while): the budget is not refilled by quiet time
			spec.QuietGap = 150*time.Millisecond + 30*spec.RestartDelay
		}
	case "internal":
		// the budget is used up, then an InternalError restart (which does not count), then the exhausting panic
		var b []item
		b = append(b, msgs(ids, 1)...)
		for i := 0; i < g.maxR; i++ {
			b = append(b, crash())
		}
		b = append(b, item{Kind: itCrashI, ID: ids.next()})
		if g.inbox == 1 {
			b = append(b, item{Kind: itCrashI, ID: ids.next()})
		}
		b = append(b, msgs(ids, 1)...)
		b = append(b, crash())
		b = append(b, tail...)
		spec.Segments = buildSegments(ids, b, msgs(ids, 2))
	case "started", "init":
		// maxR user crashes use the budget up... the restarted incarnation then fails in its lifecycle handler
		var b []item
		for i := 0; i < g.maxR; i++ {
			b = append(b, crash())
		}
		if g.maxR == 0 {
			// the very first incarnation fails while being spawned
			if g.placement == "started" {
				spec.CrashStart[1] = true
			} else {
				spec.CrashInit[1] = true
			}
		} else if g.placement == "started" {
			spec.CrashStart[g.maxR+1] = true
		} else {
			spec.CrashInit[g.maxR+1] = true
		}
		b = append(b, tail...)
		if len(b) == 0 {
			b = msgs(ids, 1)
		}
		spec.Segments = buildSegments(ids, b, msgs(ids, 2))
	}
	return spec
}

func init() {
	register(&prop{
		id:    "C06",
		level: "fault_enumeration",
		rule: "enumerated grid: MaxRestarts 0..4 x placement of the budget-exhausting panic {first batch, fresh batch, replay of the restart buffer, Started handler, Initialized handler, behind an InternalError restart that must not count} x inbox content at that moment {empty, backlog, backlog with a poison pill} x children {0,2} x inbox size {1,1024}; " +
			"checked against the sequential model: ActorRestartedEvent count <= MaxRestarts with counts 1..k, incarnations = restarts+1, exactly one ActorMaxRestartsExceededEvent, one final Stopped (children first, each once), unregistered, a later send dead-letters exactly once, process and bystander alive; distinct by grid cell",
		assumptions: []string{"same reference model and gate technique as C04", "every case runs in a child process: a dying process is attributed to the open case"},
		modes: func(tier string, seed int64) []modeSpec {
			n := len(c06Grid(tier))
			return []modeSpec{
				{name: "grid", n: n, perChild: (n + 15) / 16, timeout: 20 * time.Minute, exhaustive: true},
				{name: "grid-chaos", n: n, perChild: (n + 15) / 16, timeout: 20 * time.Minute, exhaustive: true, env: []string{"VERIF_HOOK=chaos", "VERIF_HOOK_PROB=30", "VERIF_HOOK_MAXUS=50"}},
			}
		},
		run: func(c *caseCtx) caseResult {
			grid := c06Grid(c.tier)
			g := grid[c.n%len(grid)]
			spec := c06Spec(g, c.rng)
			if c.n%4 == 3 {
				spec.MW = 1 + c.rng.Intn(2)
			}
			out := runScript(c, spec)
			out.res.Sig = sigHash("c06", g)
			out.res.Desc = fmt.Sprintf("%+v :: %s", g, spec.String())
			if !out.sim.stopped && out.res.Verdict == vHeld {
				out.res.inconclusive("generator bug: the script does not exhaust the budget")
			}
			out.res.count("max_exceeded_cases", 1)
			return out.res
		},
		minDistinct: 40,
	})
}

// ---------------------------------------------------------------------------
// C13 — middleware

func init() {
	register(&prop{
		id:    "C13",
		level: "exploration",
		rule: "the C04-C07 scripts (random and directed: spawn, user messages, stop, poison, crash, restart, replay of the restart buffer, budget exhausted, parent shutdown of children) run with a middleware chain of length 0..4 whose layers log enter and (deferred) exit; " +
			"the interleaved log must be a concatenation of well nested blocks enter0..enter(n-1) recv exit(n-1)..exit0 showing the same message and sender at every layer; filter mode: a chain [tracer, filter, tracer] whose filter swallows a PRNG choice of lifecycle messages and user messages - a swallowed delivery must end at the filter (receiver and inner layer never run for it), any other runs every layer once; distinct by (chain length, shape of the expected trace) / (what the filter swallows, failures, kind of stop)",
		assumptions: []string{"a nil sender on lifecycle deliveries is not demanded (the statement does not)", "same reference model and gate technique as C04"},
		modes: func(tier string, seed int64) []modeSpec {
			n := 800
			if tier == "thorough" {
				n = 20000
			}
			return []modeSpec{
				{name: "mw", n: n, perChild: n / 16, timeout: 20 * time.Minute},
				{name: "filter", n: n / 2, perChild: n / 32, timeout: 20 * time.Minute},
			}
		},
		run: func(c *caseCtx) caseResult {
			if c.mode == "filter" {
				return c13Filter(c)
			}
			var spec *scriptSpec
			switch c.n % 4 {
			case 0:
				spec = directedLifecycle(c.n/4, c.rng)
			case 1:
				g := c06Grid("thorough")
				spec = c06Spec(g[c.rng.Intn(len(g))], c.rng)
			default:
				spec = randomScript(c.rng, true)
			}
			spec.MW = c.n % 5
			if c.n%7 == 0 {
				spec.Children = 2
			}
			out := runScript(c, spec)
			out.res.count(fmt.Sprintf("chain_len_%d", spec.MW), 1)
			if spec.MW == 0 {
				out.res.Sig = ""
			} else {
				out.res.Sig = sigHash("mw", spec.MW, out.res.Sig)
			}
			return out.res
		},
		minDistinct: 40,
	})
}
