package main

// C12 — the event stream delivers each event once to each current subscriber, in
// order; unsubscribing is by address+id; double subscription does not duplicate;
// the engine's lifecycle events are published for every occurrence.
//
//   hist   single-goroutine histories of Subscribe/Unsubscribe/Broadcast over a
//          pool of actors addressed through several equal-but-distinct PID
//          objects; exact expected log per actor from a set-semantics model
//   conc   m concurrent broadcasters, subscribers present throughout: every event
//          once, each broadcaster's events in its order
//   life   a lifecycle script (spawn, duplicate spawn, crashes, poison, sends to the
//          dead) and the exact multiset of engine events it must publish

import (
	"fmt"
	"strings"
	"sync"
	"time"

	"github.com/anthdm/hollywood/actor"
)

func init() {
	register(&prop{
		id:    "C12",
		level: "exploration",
		rule: "hist: PRNG histories of 5-60 operations over 1-6 subscriber actors, each addressed through 3 distinct PID objects with equal address/id (also for Unsubscribe); conc: 2-6 broadcasters x 5-60 events x 1-5 subscribers; life: lifecycle scripts with exact event counts. " +
			"Non-trivial = the history contains a double subscribe, an unsubscribe through another PID object, or >=2 broadcasters; distinct by the operation sequence shape",
		assumptions: []string{
			"a history is issued from one goroutine, so the event stream's inbox orders it exactly as issued; actors that are no longer subscribed are flushed with a direct message sent after a sentinel subscriber has seen the final marker",
		},
		modes: func(tier string, seed int64) []modeSpec {
			n := 600
			if tier == "thorough" {
				n = 30000
			}
			return []modeSpec{
				{name: "es", n: n, perChild: n / 16, timeout: 20 * time.Minute},
				{name: "es-chaos", n: n / 2, perChild: n / 32, timeout: 20 * time.Minute, env: []string{"VERIF_HOOK=chaos", "VERIF_HOOK_PROB=30", "VERIF_HOOK_MAXUS=50", "VERIF_HOOK_LOCKUS=150"}},
			}
		},
		run: func(c *caseCtx) caseResult {
			switch c.n % 4 {
			case 0, 1:
				return c12Hist(c)
			case 2:
				return c12Conc(c)
			default:
				return c12Life(c)
			}
		},
		minDistinct: 30,
	})
}

type esEvent struct {
	From int
	N    int
}
type esFlush struct{ ch chan struct{} }

type esSub struct {
	mu  sync.Mutex
	got []esEvent
	// crashOn: the subscriber fails (once) while handling these events, after having taken note of them
	crashOn map[int]bool
}

func (s *esSub) Receive(c *actor.Context) {
	switch m := c.Message().(type) {
	case esEvent:
		userPerturb()
		s.mu.Lock()
		s.got = append(s.got, m)
		boom := s.crashOn[m.N]
		delete(s.crashOn, m.N)
		s.mu.Unlock()
		if boom {
			panic("verif: a subscriber that fails on an event")
		}
	case esFlush:
		close(m.ch)
	}
}

func (s *esSub) snapshot() []esEvent {
	s.mu.Lock()
	defer s.mu.Unlock()
	return append([]esEvent(nil), s.got...)
}

// recRemoter is an actor.Remoter that records what the engine hands it: subscribers on other
// nodes are PIDs with a foreign address, the event stream forwards to them through the remote.
type recRemoter struct {
	addr string
	mu   sync.Mutex
	got  map[[2]string][]esEvent
}

func (r *recRemoter) Address() string           { return r.addr }
func (r *recRemoter) Start(*actor.Engine) error { return nil }
func (r *recRemoter) Stop() *sync.WaitGroup     { return &sync.WaitGroup{} }
func (r *recRemoter) Send(pid *actor.PID, msg any, _ *actor.PID) {
	if ev, ok := msg.(esEvent); ok && pid != nil {
		r.mu.Lock()
		r.got[[2]string{pid.Address, pid.ID}] = append(r.got[[2]string{pid.Address, pid.ID}], ev)
		r.mu.Unlock()
	}
}

func c12Hist(c *caseCtx) (res caseResult) {
	r := c.rng
	wd := watchdog(c.tier)
	// in half of the cases nobody but the actors of the history is ever subscribed (the subscriber set may
	// become empty in between); the flushing monitor is then subscribed only after the last operation
	var e *actor.Engine
	var mon *eventMonitor
	var err error
	lateMonitor := c.n%8 >= 4
	// every third case: the engine has a remote, and some subscribers live on other nodes
	var rr *recRemoter
	if c.n%3 == 0 {
		rr = &recRemoter{addr: "127.0.0.1:4000", got: map[[2]string][]esEvent{}}
		e, err = actor.NewEngine(actor.NewEngineConfig().WithRemote(rr))
		if err == nil && !lateMonitor {
			mon = &eventMonitor{}
			e.Subscribe(e.Spawn(func() actor.Receiver { return mon }, "verifmonitor", actor.WithID("0")))
			if !mon.flush(e, wd) {
				res.inconclusive("monitor subscription not confirmed")
				return
			}
		}
	} else if lateMonitor {
		e, err = actor.NewEngine(actor.NewEngineConfig())
	} else {
		e, mon, _, err = newMonitoredEngine()
	}
	if err != nil {
		res.inconclusive("engine: %v", err)
		return
	}
	nL := 1 + r.Intn(6)
	subs := make([]*esSub, nL)
	pids := make([][]*actor.PID, nL) // several PID objects per actor
	crashy := 0
	for i := range subs {
		s := &esSub{}
		subs[i] = s
		if r.Intn(4) == 0 {
			// a subscriber that fails now and then and is restarted: what was queued behind the failing event
			// reaches it first, later broadcasts after that
			s.crashOn = map[int]bool{}
			for k := 0; k < 3; k++ {
				s.crashOn[1+r.Intn(40)] = true
			}
			crashy++
		}
		p := e.Spawn(func() actor.Receiver { return s }, "sub", actor.WithID(fmt.Sprint(i)), actor.WithMaxRestarts(1000), actor.WithRestartDelay(pick(r, 200*time.Microsecond, time.Millisecond)))
		pids[i] = []*actor.PID{p, actor.NewPID(p.Address, p.ID), p.CloneVT()}
	}
	// subscribers on other nodes: the same id as a local subscriber under another address, and pairs whose
	// address and id differ only in where the one ends and the other begins
	if rr != nil {
		foreign := [][2]string{
			{"127.0.0.1:400", "0sub/0"}, // "127.0.0.1:400"+"0sub/0" reads like the local "127.0.0.1:4000"+"sub/0"
			{"10.0.0.7:5000", "sub/0"},  // same id as a local subscriber
			{"10.0.0.7:500", "0sub/0"},  // ... and its look-alike
			{"10.0.0.7:5000", "sub/1"},
			{"10.0.0.8:5000", "sub/1"},
		}
		r.Shuffle(len(foreign), func(i, j int) { foreign[i], foreign[j] = foreign[j], foreign[i] })
		for _, f := range foreign[:1+r.Intn(len(foreign))] {
			p := actor.NewPID(f[0], f[1])
			pids = append(pids, []*actor.PID{p, actor.NewPID(f[0], f[1]), p.CloneVT()})
		}
	}
	nA := len(pids)
	nOps := 5 + r.Intn(56)
	subscribed := make([]bool, nA)
	expect := make([][]int, nA)
	var ops []string
	evN := 0
	dbl, cross := 0, 0
	lastSubObj := make([]int, nA)
	for i := 0; i < nOps; i++ {
		a := r.Intn(nA)
		obj := r.Intn(3)
		switch x := r.Intn(11); {
		case x == 10:
			// things that happen on a running engine and are none of the subscribers' business: a peer is
			// reported unreachable (a connection closed; also the address of a subscriber on another node),
			// a message goes out to a node although the engine has no remote. The subscriptions stay as they are.
			switch {
			case rr != nil && nA > nL:
				e.BroadcastEvent(actor.RemoteUnreachableEvent{ListenAddr: pids[nL+r.Intn(nA-nL)][0].Address})
				ops = append(ops, "UnreachableEvent")
			case rr != nil:
				e.BroadcastEvent(actor.RemoteUnreachableEvent{ListenAddr: "10.0.0.7:5000"})
				ops = append(ops, "UnreachableEvent")
			default:
				if r.Intn(2) == 0 {
					e.Send(actor.NewPID("10.1.2.3:4000", "worker/1"), "hello")
				} else {
					e.SendWithSender(actor.NewPID("10.1.2.3:4000", "worker/1"), "hello", pids[0][0])
				}
				ops = append(ops, "ForeignSend")
			}
		case x < 3:
			if subscribed[a] {
				dbl++
			}
			e.Subscribe(pids[a][obj])
			subscribed[a] = true
			lastSubObj[a] = obj
			ops = append(ops, fmt.Sprintf("Sub(a%d via obj%d)", a, obj))
		case x < 5:
			if subscribed[a] && obj != lastSubObj[a] {
				cross++
			}
			e.Unsubscribe(pids[a][obj])
			subscribed[a] = false
			ops = append(ops, fmt.Sprintf("Unsub(a%d via obj%d)", a, obj))
		default:
			evN++
			e.BroadcastEvent(esEvent{From: 0, N: evN})
			for k := 0; k < nA; k++ {
				if subscribed[k] {
					expect[k] = append(expect[k], evN)
				}
			}
			ops = append(ops, fmt.Sprintf("Bcast(%d)", evN))
		}
	}
	res.Desc = fmt.Sprintf("hist subscribers=%d (%d on other nodes) ops=%d double-subscribes=%d cross-object-unsubscribes=%d lateMonitor=%v", nA, nA-nL, nOps, dbl, cross, lateMonitor)
	if lateMonitor {
		mon = &eventMonitor{}
		mp := e.Spawn(func() actor.Receiver { return mon }, "verifmonitor", actor.WithID("late"))
		e.Subscribe(mp)
	}
	// flush: sentinel monitor sees the marker => the event stream has forwarded everything before it
	if !mon.flush(e, wd) {
		res.inconclusive("marker did not come back")
		return
	}
	for i, p := range pids[:nL] {
		f := esFlush{ch: make(chan struct{})}
		e.Send(p[0], f)
		select {
		case <-f.ch:
		case <-time.After(wd):
			res.inconclusive("subscriber %d did not answer the flush", i)
			return
		}
	}
	for i := range pids {
		var got []esEvent
		name := fmt.Sprintf("a%d", i)
		if i < nL {
			got = subs[i].snapshot()
		} else {
			rr.mu.Lock()
			got = append(got, rr.got[[2]string{pids[i][0].Address, pids[i][0].ID}]...)
			rr.mu.Unlock()
			name = fmt.Sprintf("a%d (on another node: %s/%s)", i, pids[i][0].Address, pids[i][0].ID)
		}
		var g []int
		for _, ev := range got {
			g = append(g, ev.N)
		}
		if fmt.Sprint(g) != fmt.Sprint(expect[i]) {
			res.violate("subscriber %s received events %v, the set-semantics model expects %v", name, trimInts(g), trimInts(expect[i]))
		}
	}
	res.count("history_ops", int64(nOps))
	res.count("double_subscribes", int64(dbl))
	res.count("cross_object_unsubscribes", int64(cross))
	if dbl+cross > 0 {
		shape := make([]byte, 0, len(ops))
		for _, o := range ops {
			shape = append(shape, o[0])
		}
		res.Sig = sigHash("hist", nA, nA-nL, string(shape), dbl, cross, crashy)
	}
	if c.n < 4 || res.Verdict == vViolated {
		res.Sample = map[string]any{"scenario": res.Desc, "ops": ops}
	}
	return res
}

func trimInts(x []int) []int {
	if len(x) > 40 {
		return x[:40]
	}
	return x
}

func c12Conc(c *caseCtx) (res caseResult) {
	r := c.rng
	wd := watchdog(c.tier)
	e, mon, _, err := newMonitoredEngine()
	if err != nil {
		res.inconclusive("engine: %v", err)
		return
	}
	nA := 1 + r.Intn(5)
	if r.Intn(6) == 0 {
		nA = 65 + r.Intn(60) // a large subscriber population
	}
	nB := 2 + r.Intn(5)
	per := 5 + r.Intn(56)
	if nA > 64 {
		nB, per = 1+r.Intn(2), 60+r.Intn(90)
	}
	subs := make([]*esSub, nA)
	pids := make([]*actor.PID, nA)
	for i := range subs {
		s := &esSub{}
		subs[i] = s
		pids[i] = e.Spawn(func() actor.Receiver { return s }, "sub", actor.WithID(fmt.Sprint(i)), actor.WithInboxSize(pick(r, 1, 8, 1024)))
		e.Subscribe(pids[i])
		if r.Intn(3) == 0 {
			e.Subscribe(actor.NewPID(pids[i].Address, pids[i].ID)) // double subscription must not duplicate
		}
	}
	if !mon.flush(e, wd) {
		res.inconclusive("subscriptions not confirmed")
		return
	}
	var wg sync.WaitGroup
	startCh := make(chan struct{})
	for b := 0; b < nB; b++ {
		b := b
		wg.Add(1)
		go func() {
			defer wg.Done()
			<-startCh
			for i := 1; i <= per; i++ {
				e.BroadcastEvent(esEvent{From: b, N: i})
			}
		}()
	}
	close(startCh)
	wg.Wait()
	if !mon.flush(e, wd) {
		res.inconclusive("marker did not come back")
		return
	}
	for i, p := range pids {
		f := esFlush{ch: make(chan struct{})}
		e.Send(p, f)
		select {
		case <-f.ch:
		case <-time.After(wd):
			res.inconclusive("subscriber %d did not answer the flush", i)
			return
		}
	}
	res.Desc = fmt.Sprintf("conc subscribers=%d broadcasters=%d events each=%d", nA, nB, per)
	for i := range subs {
		got := subs[i].snapshot()
		last := make([]int, nB)
		cnt := 0
		for _, ev := range got {
			cnt++
			if ev.N != last[ev.From]+1 {
				res.violate("subscriber %d: event %d of broadcaster %d arrived after its event %d (lost, duplicated or out of order)", i, ev.N, ev.From, last[ev.From])
				break
			}
			last[ev.From] = ev.N
		}
		if cnt != nB*per && res.Verdict != vViolated {
			res.violate("subscriber %d received %d events, %d were broadcast while it was subscribed", i, cnt, nB*per)
		}
	}
	res.count("events_broadcast", int64(nB*per))
	res.Sig = sigHash("conc", nA, nB, per)
	if c.n < 4 || res.Verdict == vViolated {
		res.Sample = map[string]any{"scenario": res.Desc}
	}
	return res
}

func c12Life(c *caseCtx) (res caseResult) {
	r := c.rng
	wd := watchdog(c.tier)
	e, mon, _, err := newMonitoredEngine()
	if err != nil {
		res.inconclusive("engine: %v", err)
		return
	}
	nActors := 1 + r.Intn(4)
	type plan struct{ dups, crashes, deadSends int }
	plans := make([]plan, nActors)
	var script []string
	for i := range plans {
		plans[i] = plan{dups: r.Intn(3), crashes: r.Intn(4), deadSends: r.Intn(4)}
		id := fmt.Sprint(i)
		done := make(chan struct{}, 16)
		prod := func() actor.Receiver {
			return &lifeActor{done: done}
		}
		pid := e.Spawn(prod, "life", actor.WithID(id), actor.WithMaxRestarts(10), actor.WithRestartDelay(0))
		script = append(script, "spawn life/"+id)
		if i%2 == 0 {
			for d := 0; d < plans[i].dups; d++ {
				e.Spawn(prod, "life", actor.WithID(id))
				script = append(script, "duplicate spawn")
			}
		} else {
			// the duplicates race each other (and would race the original's registration if it were not there yet)
			var dwg sync.WaitGroup
			plans[i].dups *= 4
			for d := 0; d < plans[i].dups; d++ {
				dwg.Add(1)
				go func() {
					defer dwg.Done()
					e.Spawn(prod, "life", actor.WithID(id))
				}()
			}
			dwg.Wait()
			script = append(script, fmt.Sprintf("%d concurrent duplicate spawns", plans[i].dups))
		}
		for k := 0; k < plans[i].crashes; k++ {
			e.Send(pid, crashMsg{ID: k})
			script = append(script, "crash")
		}
		select {
		case <-e.Poison(pid).Done():
		case <-time.After(wd):
			res.inconclusive("actor did not stop")
			return
		}
		script = append(script, "poison")
		for k := 0; k < plans[i].deadSends; k++ {
			e.Send(pid, &dlPayload{Tag: i*100 + k})
			script = append(script, "send to the dead")
		}
	}
	// n concurrent spawns of one fresh id: exactly one start, n-1 duplicate-id events
	nRace := 2 + r.Intn(10)
	{
		var rwg sync.WaitGroup
		startCh := make(chan struct{})
		for k := 0; k < nRace; k++ {
			rwg.Add(1)
			go func() {
				defer rwg.Done()
				<-startCh
				e.Spawn(func() actor.Receiver { return &lifeActor{} }, "life", actor.WithID("raced"))
			}()
		}
		close(startCh)
		rwg.Wait()
		script = append(script, fmt.Sprintf("%d concurrent spawns of the fresh id life/raced", nRace))
	}
	if !mon.flush(e, wd) {
		res.inconclusive("marker did not come back")
		return
	}
	evs := mon.snapshot()
	{
		started, dup := 0, 0
		for _, x := range evs {
			switch ev := x.(type) {
			case actor.ActorStartedEvent:
				if ev.PID.ID == "life/raced" {
					started++
				}
			case actor.ActorDuplicateIdEvent:
				if ev.PID.ID == "life/raced" {
					dup++
				}
			}
		}
		if started != 1 || dup != nRace-1 {
			res.violate("%d concurrent spawns of one fresh id published %d ActorStartedEvent(s) and %d ActorDuplicateIdEvent(s); expected 1 and %d", nRace, started, dup, nRace-1)
		}
	}
	for i, pl := range plans {
		id := "life/" + fmt.Sprint(i)
		var started, stopped, dup, dead int
		var restarts []string
		for _, x := range evs {
			switch ev := x.(type) {
			case actor.ActorStartedEvent:
				if ev.PID.ID == id {
					started++
				}
			case actor.ActorStoppedEvent:
				if ev.PID.ID == id {
					stopped++
				}
			case actor.ActorDuplicateIdEvent:
				if ev.PID.ID == id {
					dup++
				}
			case actor.ActorRestartedEvent:
				if ev.PID.ID == id {
					restarts = append(restarts, fmt.Sprint(ev.Restarts))
				}
			case actor.DeadLetterEvent:
				if p, ok := ev.Message.(*dlPayload); ok && p.Tag/100 == i && ev.Target.ID == id {
					dead++
				}
			}
		}
		var wantR []string
		for k := 1; k <= pl.crashes; k++ {
			wantR = append(wantR, fmt.Sprint(k))
		}
		if started != 1+pl.crashes || stopped != 1 || dup != pl.dups || dead != pl.deadSends || strings.Join(restarts, ",") != strings.Join(wantR, ",") {
			res.violate("actor %s: events published: started=%d stopped=%d duplicate-id=%d restarted=[%s] dead-letter=%d; expected started=%d stopped=1 duplicate-id=%d restarted=[%s] dead-letter=%d",
				id, started, stopped, dup, strings.Join(restarts, ","), dead, 1+pl.crashes, pl.dups, strings.Join(wantR, ","), pl.deadSends)
		}
	}
	res.Desc = fmt.Sprintf("life actors=%d plans=%v", nActors, plans)
	res.Sig = sigHash("life", fmt.Sprint(plans))
	res.count("lifecycle_scripts", 1)
	if c.n < 4 || res.Verdict == vViolated {
		res.Sample = map[string]any{"scenario": res.Desc, "script": script}
	}
	return res
}

type lifeActor struct{ done chan struct{} }

func (a *lifeActor) Receive(c *actor.Context) {
	if _, ok := c.Message().(crashMsg); ok {
		panic("scripted crash")
	}
}
