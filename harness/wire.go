package main

// Shared pieces for the wire-level properties C15 and C16: fake dRPC streams,
// a fake net.Conn, recording Processers registered directly in the receiving
// engine's registry (they record synchronously, in delivery order).

import (
	"context"
	"errors"
	"fmt"
	"net"
	"sync"
	"time"

	"github.com/anthdm/hollywood/actor"
	"github.com/anthdm/hollywood/cluster"
	"github.com/anthdm/hollywood/remote"
	"google.golang.org/protobuf/proto"
	"google.golang.org/protobuf/types/known/durationpb"
	"google.golang.org/protobuf/types/known/emptypb"
	"google.golang.org/protobuf/types/known/wrapperspb"
	"storj.io/drpc"
)

// captureStream records what the writer sends.
type captureStream struct {
	mu   sync.Mutex
	envs []*remote.Envelope
}

func (s *captureStream) Context() context.Context { return context.Background() }
func (s *captureStream) MsgSend(m drpc.Message, _ drpc.Encoding) error {
	// a writer may use the generic entry point instead of Send
	if e, ok := m.(*remote.Envelope); ok {
		return s.Send(e)
	}
	return nil
}
func (s *captureStream) MsgRecv(drpc.Message, drpc.Encoding) error { return errors.New("not a reader") }
func (s *captureStream) CloseSend() error                          { return nil }
func (s *captureStream) Close() error                              { return nil }
func (s *captureStream) Send(e *remote.Envelope) error {
	s.mu.Lock()
	s.envs = append(s.envs, e)
	s.mu.Unlock()
	return nil
}
func (s *captureStream) Recv() (*remote.Envelope, error) { return nil, errors.New("not a reader") }

// feedStream hands prepared envelopes to the reader, then ends the stream the
// way a cancelled context does.
type feedStream struct {
	envs []*remote.Envelope
	i    int
}

func (s *feedStream) Context() context.Context                  { return context.Background() }
func (s *feedStream) MsgSend(drpc.Message, drpc.Encoding) error { return nil }
func (s *feedStream) MsgRecv(m drpc.Message, _ drpc.Encoding) error {
	// a reader may use the generic entry point instead of Recv (e.g. to decode into an envelope of its own):
	// like the real decoder this APPENDS to whatever the destination already holds
	e, err := s.Recv()
	if err != nil {
		return err
	}
	dst, ok := m.(*remote.Envelope)
	if !ok {
		return errors.New("feedStream: unexpected destination type")
	}
	dst.Senders = append(dst.Senders, e.Senders...)
	dst.Targets = append(dst.Targets, e.Targets...)
	dst.TypeNames = append(dst.TypeNames, e.TypeNames...)
	dst.Messages = append(dst.Messages, e.Messages...)
	return nil
}
func (s *feedStream) CloseSend() error            { return nil }
func (s *feedStream) Close() error                { return nil }
func (s *feedStream) Send(*remote.Envelope) error { return nil }
func (s *feedStream) Recv() (*remote.Envelope, error) {
	if s.i >= len(s.envs) {
		return nil, context.Canceled
	}
	e := s.envs[s.i]
	s.i++
	return e, nil
}

type fakeConn struct{}

func (fakeConn) Read([]byte) (int, error)         { return 0, errors.New("fake") }
func (fakeConn) Write(b []byte) (int, error)      { return len(b), nil }
func (fakeConn) Close() error                     { return nil }
func (fakeConn) LocalAddr() net.Addr              { return &net.TCPAddr{} }
func (fakeConn) RemoteAddr() net.Addr             { return &net.TCPAddr{} }
func (fakeConn) SetDeadline(time.Time) error      { return nil }
func (fakeConn) SetReadDeadline(time.Time) error  { return nil }
func (fakeConn) SetWriteDeadline(time.Time) error { return nil }

// delivery is what a recording Processer saw.
type delivery struct {
	TargetID string
	Msg      any
	Sender   *actor.PID
}

type recLogW struct {
	mu  sync.Mutex
	got []delivery
}

func (l *recLogW) snapshot() []delivery {
	l.mu.Lock()
	defer l.mu.Unlock()
	return append([]delivery(nil), l.got...)
}

type recProc struct {
	pid *actor.PID
	log *recLogW
}

func (p *recProc) Start()                  {}
func (p *recProc) PID() *actor.PID         { return p.pid }
func (p *recProc) Invoke([]actor.Envelope) {}
func (p *recProc) Shutdown()               {}
func (p *recProc) Send(_ *actor.PID, msg any, sender *actor.PID) {
	p.log.mu.Lock()
	p.log.got = append(p.log.got, delivery{TargetID: p.pid.ID, Msg: msg, Sender: sender})
	p.log.mu.Unlock()
}

// registerTargets puts one recording Processer per id into e's registry.
func registerTargets(e *actor.Engine, addr string, ids []string) *recLogW {
	lg := &recLogW{}
	for _, id := range ids {
		e.SpawnProc(&recProc{pid: actor.NewPID(addr, id), log: lg})
	}
	return lg
}

// payload generators ------------------------------------------------------------

type payloadKind int

const (
	pkTest payloadKind = iota
	pkPID
	pkPing
	pkMember
	pkActivation
	pkEmptyTest // a registered (vtproto) message that encodes to zero bytes
	pkEmptyPB   // google.protobuf.Empty: plain protobuf (no vtproto methods), zero bytes
	pkWrapper   // google.protobuf.StringValue / Duration: plain protobuf, goes through the reflection-based path
	pkNonProto  // not a proto.Message: cannot be serialised
	pkBadUTF8   // proto3 string with invalid UTF-8: Marshal fails
	pkNilIface  // nil interface value
	numPayloadKinds
)

func makePayload(k payloadKind, tag int) (msg any, serialisable bool) {
	switch k {
	case pkTest:
		return &remote.TestMessage{Data: []byte(fmt.Sprintf("data-%d", tag))}, true
	case pkPID:
		return &actor.PID{Address: fmt.Sprintf("10.1.1.%d:1", tag%250), ID: fmt.Sprintf("p/%d", tag)}, true
	case pkPing:
		return &actor.Ping{From: &actor.PID{Address: "a", ID: fmt.Sprint(tag)}}, true
	case pkMember:
		return &cluster.Member{ID: fmt.Sprint(tag), Host: "h", Region: "r", Kinds: []string{"k1", fmt.Sprint(tag)}}, true
	case pkActivation:
		return &cluster.Activation{PID: &actor.PID{Address: "x", ID: fmt.Sprintf("act/%d", tag)}}, true
	case pkEmptyTest:
		if tag%2 == 0 {
			return &remote.TestMessage{}, true
		}
		return &actor.PID{}, true
	case pkEmptyPB:
		return &emptypb.Empty{}, true
	case pkWrapper:
		if tag%2 == 0 {
			return wrapperspb.String(fmt.Sprintf("wrapped-%d", tag)), true
		}
		return &durationpb.Duration{Seconds: int64(tag), Nanos: int32(tag % 1000)}, true
	case pkNonProto:
		switch tag % 4 {
		case 0: // values of types that cannot even be compared or hashed
			return []string{"not", "a", "proto", "message", fmt.Sprint(tag)}, false
		case 1:
			return map[string]int{"tag": tag}, false
		case 2:
			return struct {
				Tag  int
				List []int
			}{tag, []int{tag}}, false
		}
		return fmt.Sprintf("i am not a proto message %d", tag), false
	case pkBadUTF8:
		return &actor.PID{Address: "bad\xff\xfe", ID: fmt.Sprint(tag)}, false
	default:
		return nil, false
	}
}

func samePID(a, b *actor.PID) bool {
	if a == nil || b == nil {
		return a == nil && b == nil
	}
	return a.Address == b.Address && a.ID == b.ID
}

func protoEqualAny(a, b any) bool {
	pa, ok1 := a.(proto.Message)
	pb, ok2 := b.(proto.Message)
	if !ok1 || !ok2 {
		return false
	}
	return proto.Equal(pa, pb)
}
