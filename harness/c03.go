package main

// C03 — no lost wake-up, restated as bounded progress:
// once every Send has returned and no worker goroutine of that inbox exists,
// every accepted message has been invoked.
//
//   raw     raw Inbox, 1-4 senders x 1-4 messages so that the worker goes idle
//           between almost every pair of sends; trace mode of the shims: an exact
//           total order of the procStatus / ring operations, from which the monitor
//           counts how often the dangerous windows were actually produced;
//           quiescence by goroutine accounting (decided on state, not on time)
//   engine  engine actors with tiny inboxes: senders fall silent, the monitor waits
//           for the deliveries; if they do not come it proves the rest by state: a
//           single kick message makes the stranded backlog appear

import (
	"context"
	"fmt"
	"runtime"
	"sync"
	"sync/atomic"
	"time"

	"github.com/anthdm/hollywood/actor"
	"github.com/anthdm/hollywood/verifshim/vhook"
)

func init() {
	register(&prop{
		id:    "C03",
		level: "exploration",
		rule: "raw: PRNG scenarios (1-4 senders x 1-4 messages, inbox size, Start before/racing/after) on a real Inbox whose procStatus and ring operations are traced in an exact total order; the verdict is taken at the quiescent state 'all Sends returned and the goroutine count is back at the baseline' (no worker alive): invoked == accepted. " +
			"A case is non-trivial if its trace shows a push inside one of the critical windows (between the worker's last empty PopN and its running->idle CAS, or between that CAS and the Len re-check), a failed idle->running CAS, or Start on a non-empty ring; distinct by the abstract trace (sequence of (goroutine renamed by first appearance, operation, result))",
		assumptions: []string{
			"finite runs cannot show 'never': the window counters in the evidence say how often the dangerous interleavings were produced; a run that produced none is inconclusive",
			"the harness process contains only harness goroutines and inbox workers while a raw case runs, so 'goroutine count back at baseline' means no worker is alive",
			"if actor/inbox.go no longer imports sync/atomic and the ringbuffer package the trace is empty: the raw mode then reports instrumentation_point_missing and only the state oracle (plain stress) remains",
		},
		modes: func(tier string, seed int64) []modeSpec {
			a, b := 16000, 600
			if tier == "thorough" {
				a, b = 1000000, 24000
			}
			return []modeSpec{
				{name: "raw", n: a, perChild: a / 16, parallel: 8, timeout: 30 * time.Minute, env: []string{"VERIF_HOOK=trace", "VERIF_HOOK_PROB=30", "VERIF_HOOK_MAXUS=30"}},
				{name: "engine", n: b, perChild: b / 16, timeout: 30 * time.Minute, env: []string{"VERIF_HOOK=chaos", "VERIF_HOOK_PROB=30", "VERIF_HOOK_MAXUS=30"}},
				{name: "crowd", n: b / 20, perChild: (b/20 + 15) / 16, timeout: 30 * time.Minute},
				{name: "stop-race", n: b / 10, perChild: (b/10 + 15) / 16, timeout: 30 * time.Minute, env: []string{"VERIF_HOOK=chaos", "VERIF_HOOK_PROB=30", "VERIF_HOOK_MAXUS=30"}},
			}
		},
		run: func(c *caseCtx) caseResult {
			if c.mode == "raw" {
				return c03Raw(c)
			}
			if c.mode == "crowd" {
				return c03Crowd(c)
			}
			if c.mode == "stop-race" {
				return c03StopRace(c)
			}
			return c03Engine(c)
		},
		post: func(a *aggregate) {
			w := a.counters["window_pop_to_idle"] + a.counters["window_idle_to_recheck"]
			if a.counters["trace_events"] > 0 && w == 0 {
				a.inconclusive = append(a.inconclusive, caseResult{Verdict: vInconclusive, Case: -1, Mode: "raw",
					Detail: "no execution had a push inside the critical windows: the run cannot speak about lost wake-ups"})
			}
			if a.counters["trace_events"] == 0 {
				a.notes = append(a.notes, "instrumentation_point_missing: no procStatus/ring operation was traced (actor/inbox.go refactored?); plain stress only")
			}
		},
		minDistinct: 40,
	})
}

const (
	stStopped  = 0
	stStarting = 1
	stIdle     = 2
	stRunning  = 3
)

var c03Base int

type countProc struct {
	invoked int64
	calls   int64
}

func (p *countProc) Start()                           {}
func (p *countProc) PID() *actor.PID                  { return nil }
func (p *countProc) Send(*actor.PID, any, *actor.PID) {}
func (p *countProc) Shutdown()                        {}
func (p *countProc) Invoke(msgs []actor.Envelope) {
	atomic.AddInt64(&p.calls, 1)
	userPerturb()
	atomic.AddInt64(&p.invoked, int64(len(msgs)))
}

func c03Raw(c *caseCtx) (res caseResult) {
	r := c.rng
	wd := watchdog(c.tier)
	size := pick(r, 1, 2, 4, 64)
	nS := 1 + r.Intn(4)
	per := 1 + r.Intn(4)
	startWhen := r.Intn(4) // 0 before, 1 racing, 2 after, 3 before (again: the common case)
	// the baseline is taken once, before the first inbox of this process exists;
	// every case starts only when the process is back at it
	if c03Base == 0 {
		c03Base = runtime.NumGoroutine()
	}
	base := c03Base
	if !waitFor(wd, func() bool { return runtime.NumGoroutine() <= base }) {
		res.inconclusive("process did not settle to its goroutine baseline before the case")
		return
	}
	in := actor.NewInbox(size)
	p := &countProc{}
	vhook.TraceStart()
	if startWhen == 0 || startWhen == 3 {
		in.Start(p)
	}
	var wg sync.WaitGroup
	startCh := make(chan struct{})
	for s := 0; s < nS; s++ {
		s := s
		gap := r.Intn(3)
		wg.Add(1)
		go func() {
			defer wg.Done()
			<-startCh
			for i := 0; i < per; i++ {
				in.Send(actor.Envelope{Msg: &tmsg{Sender: s, Seq: i}})
				for g := 0; g < gap; g++ {
					runtime.Gosched()
				}
			}
		}()
	}
	if startWhen == 1 {
		wg.Add(1)
		go func() {
			defer wg.Done()
			<-startCh
			in.Start(p)
		}()
	}
	close(startCh)
	wg.Wait()
	if startWhen == 2 {
		in.Start(p)
	}
	accepted := int64(nS * per)
	res.Desc = fmt.Sprintf("raw size=%d senders=%d per=%d start=%d", size, nS, per, startWhen)
	// quiescence: every Send (and Start) has returned; wait until no worker goroutine is left
	quiet := waitFor(wd, func() bool { return runtime.NumGoroutine() <= base })
	tr := vhook.TraceStop()
	invoked := atomic.LoadInt64(&p.invoked)
	if !quiet {
		if invoked == accepted {
			// all done, some unrelated goroutine lingers: fine
		} else {
			res.inconclusive("goroutine count did not return to the baseline within the watchdog (%d > %d); invoked %d of %d", runtime.NumGoroutine(), base, invoked, accepted)
			return
		}
	} else if invoked != accepted {
		res.violate("all senders have returned and no worker goroutine exists, yet only %d of %d accepted messages were invoked: the inbox rests idle with a non-empty queue (lost wake-up)", invoked, accepted)
	}
	if invoked > accepted {
		res.violate("%d messages invoked, only %d accepted", invoked, accepted)
	}
	w1, w2, contended, startNonEmpty, abstract := analyseInboxTrace(tr)
	res.count("trace_events", int64(len(tr)))
	res.count("window_pop_to_idle", int64(w1))
	res.count("window_idle_to_recheck", int64(w2))
	res.count("contended_cas", int64(contended))
	res.count("start_on_nonempty_ring", int64(startNonEmpty))
	res.count("invoke_calls", atomic.LoadInt64(&p.calls))
	if w1+w2+contended+startNonEmpty > 0 {
		res.Sig = abstract
	} else if len(tr) == 0 && nS > 1 {
		res.Sig = sigHash("untraced", size, nS, per, startWhen)
	}
	if c.n < 2 || res.Verdict == vViolated {
		var ts []string
		for i, ev := range tr {
			if i >= 80 {
				break
			}
			ts = append(ts, fmt.Sprintf("g%d %s(%d,%d)=%d", ev.G, vhook.OpNames[ev.Op], ev.A, ev.B, ev.R))
		}
		res.Sample = map[string]any{"scenario": res.Desc, "accepted": accepted, "invoked": invoked, "trace": ts}
	}
	in.Stop()
	return res
}

// analyseInboxTrace derives the window counters from the exact operation order.
func analyseInboxTrace(tr []vhook.Event) (w1, w2, contended, startNonEmpty int, abstract string) {
	type wstate struct {
		emptyPop bool // last PopN by this goroutine returned nothing and no CAS since
		idled    bool // running->idle CAS succeeded and Len not yet re-read
	}
	ws := map[uint64]*wstate{}
	get := func(g uint64) *wstate {
		if ws[g] == nil {
			ws[g] = &wstate{}
		}
		return ws[g]
	}
	rename := map[uint64]int{}
	var sb []byte
	ringLen := int64(0)
	for _, ev := range tr {
		if _, ok := rename[ev.G]; !ok {
			rename[ev.G] = len(rename)
		}
		sb = append(sb, fmt.Sprintf("%d%s%d.", rename[ev.G], vhook.OpNames[ev.Op][:2], ev.R)...)
		s := get(ev.G)
		switch ev.Op {
		case vhook.OpPush:
			ringLen++
			for g, o := range ws {
				if g == ev.G {
					continue
				}
				if o.emptyPop {
					w1++
					o.emptyPop = false // count a window once
				}
				if o.idled {
					w2++
					o.idled = false
				}
			}
		case vhook.OpPopN:
			ringLen -= ev.R
			s.emptyPop = ev.R == 0
		case vhook.OpCAS:
			if ev.A == stRunning && ev.B == stIdle {
				s.emptyPop = false
				if ev.R == 1 {
					s.idled = true
				}
			}
			if ev.A == stIdle && ev.B == stRunning && ev.R == 0 {
				contended++
			}
			if ev.A == stStopped && ev.B == stStarting && ev.R == 1 && ringLen > 0 {
				startNonEmpty++
			}
		case vhook.OpLen:
			s.idled = false
		}
	}
	return w1, w2, contended, startNonEmpty, sigHash(string(sb))
}

// ---- engine level -----------------------------------------------------------

type c03Recv struct {
	n    int64
	kick int64
	// the first incarnations fail while they are being started (1: in Initialized, 2: in Started)
	failStart []int
	inc       int32
	ctx       atomic.Value // *actor.Context of the running incarnation
}

type kickMsg struct{}

func (a *c03Recv) Receive(c *actor.Context) {
	switch m := c.Message().(type) {
	case actor.Initialized:
		k := int(atomic.AddInt32(&a.inc, 1)) - 1
		if k < len(a.failStart) && a.failStart[k] == 1 {
			panic("verif: failure in Initialized")
		}
	case actor.Started:
		k := int(atomic.LoadInt32(&a.inc)) - 1
		if k < len(a.failStart) && a.failStart[k] == 2 {
			panic("verif: failure in Started")
		}
		a.ctx.Store(c) // the Context is handed to helper goroutines (an accept loop, a timer callback)
	case *tmsg:
		userPerturb()
		atomic.AddInt64(&a.n, 1)
		if m.Baton == 77 {
			// a transient failure (the kind that does not count against the restart budget): what was taken
			// from the inbox together with this message is still owed to the actor
			panic(&actor.InternalError{From: "verif", Err: fmt.Errorf("transient")})
		}
	case kickMsg:
		atomic.AddInt64(&a.kick, 1)
	}
}

func c03Engine(c *caseCtx) (res caseResult) {
	r := c.rng
	wd := watchdog(c.tier)
	e, err := actor.NewEngine(actor.NewEngineConfig())
	if err != nil {
		res.inconclusive("engine: %v", err)
		return
	}
	nA := 1 + r.Intn(3)
	nS := 1 + r.Intn(4)
	per := 1 + r.Intn(6)
	rounds := 20
	var recvs []*c03Recv
	var pids []*actor.PID
	bumpy := 0
	transient := r.Intn(3) == 0
	for i := 0; i < nA; i++ {
		rc := &c03Recv{}
		if r.Intn(4) == 0 {
			// the actor comes up only at the second or third attempt: it is started all the same
			for k := 1 + r.Intn(2); k > 0; k-- {
				rc.failStart = append(rc.failStart, 1+r.Intn(2))
			}
			bumpy++
		}
		recvs = append(recvs, rc)
		pids = append(pids, e.Spawn(func() actor.Receiver { return rc }, "c03", actor.WithID(fmt.Sprint(i)), actor.WithInboxSize(pick(r, 1, 2, 8)), actor.WithMaxRestarts(5), actor.WithRestartDelay(pick(r, 0, 200*time.Microsecond))))
	}
	res.Desc = fmt.Sprintf("engine actors=%d (%d started at a later attempt) senders=%d per=%d rounds=%d", nA, bumpy, nS, per, rounds)
	total := int64(0)
	for round := 0; round < rounds; round++ {
		var wg sync.WaitGroup
		for s := 0; s < nS; s++ {
			s := s
			wg.Add(1)
			go func() {
				defer wg.Done()
				for i := 0; i < per; i++ {
					k := (s + i) % nA
					m := &tmsg{Sender: s, Seq: i}
					if transient && (round*7+s+i)%13 == 0 {
						m.Baton = 77
					}
					if cx, ok := recvs[k].ctx.Load().(*actor.Context); ok && (s+i+round)%3 == 0 {
						// sent through the actor's own Context from this (foreign) goroutine, to the actor itself
						cx.Send(pids[k], m)
					} else {
						e.Send(pids[k], m)
					}
				}
			}()
		}
		wg.Wait()
		total += int64(nS * per)
		// the senders have fallen silent: everything accepted must get processed without further stimulus
		sum := func() int64 {
			var t int64
			for _, rc := range recvs {
				t += atomic.LoadInt64(&rc.n)
			}
			return t
		}
		if fin1, stalled := settle(wd, 10*time.Second, func() bool { return sum() == total }, sum); !fin1 {
			if !stalled {
				res.inconclusive("round %d: %d of %d processed within the watchdog, still progressing", round, sum(), total)
				return
			}
			before := sum()
			// nothing has been processed for 10 s. Decide on state. First: has the process come to rest
			// (no goroutine that could still deliver anything)? If not it is merely slow.
			late, rest, where := stallVerdict(wd, func() bool { return sum() == total })
			if late {
				continue
			}
			if !rest {
				res.inconclusive("round %d: %d of %d processed within the watchdog, the process is not at rest: %s", round, sum(), total, where)
				return
			}
			// Second: one kick per actor shows whether the rest was sitting in an idle inbox
			for _, p := range pids {
				e.Send(p, kickMsg{})
			}
			if fin2, _ := settle(wd/3, 10*time.Second, func() bool { return sum() == total }, sum); fin2 {
				res.violate("round %d: senders fell silent with %d of %d messages processed and the process came to rest (%s); the remaining %d were processed only after a further message kicked the actor (lost wake-up)", round, before, total, where, total-before)
			} else {
				res.violate("round %d: senders fell silent with %d of %d messages processed; the process then came to rest (every goroutine parked, none running, runnable or sleeping: %s) with %d accepted messages unprocessed, and a further message to each actor changed nothing", round, before, total, where, total-before)
			}
			return
		}
	}
	res.count("engine_messages", total)
	res.Sig = sigHash("engine", nA, nS, per, bumpy, transient)
	if c.n < 1 {
		res.Sample = map[string]any{"scenario": res.Desc, "processed": total}
	}
	for _, p := range pids {
		e.Poison(p)
	}
	return res
}

// ---- crowd: many actors busy at once ---------------------------------------------

type crowdRecv struct {
	gate    chan struct{}
	entered *int64
	done    *int64
}

type openMsg struct{}

func (a *crowdRecv) Receive(c *actor.Context) {
	switch c.Message().(type) {
	case *tmsg:
		atomic.AddInt64(a.entered, 1)
		<-a.gate
		atomic.AddInt64(a.done, 1)
	case openMsg:
		close(a.gate)
		atomic.AddInt64(a.done, 1)
	}
}

// c03Crowd: K actors are each inside Receive waiting for something only another actor
// can provide (a gate that the opener actor closes when it gets its message). The
// opener's message was accepted by a started actor, so it must be processed whatever
// the other actors are doing; then everybody finishes.
func c03Crowd(c *caseCtx) (res caseResult) {
	r := c.rng
	wd := watchdog(c.tier)
	e, err := actor.NewEngine(actor.NewEngineConfig())
	if err != nil {
		res.inconclusive("engine: %v", err)
		return
	}
	P := runtime.GOMAXPROCS(0)
	K := pick(r, 3, P+1, 4*P+1, 16*P+1, 1100)
	gate := make(chan struct{})
	var entered, done int64
	var pids []*actor.PID
	for i := 0; i < K; i++ {
		pids = append(pids, e.Spawn(func() actor.Receiver { return &crowdRecv{gate: gate, entered: &entered, done: &done} }, "crowd", actor.WithID(fmt.Sprint(i))))
	}
	opener := e.Spawn(func() actor.Receiver { return &crowdRecv{gate: gate, entered: &entered, done: &done} }, "crowd", actor.WithID("opener"))
	res.Desc = fmt.Sprintf("crowd of %d actors inside Receive, GOMAXPROCS=%d", K, P)
	for _, p := range pids {
		e.Send(p, &tmsg{})
	}
	progress := func() int64 { return atomic.LoadInt64(&entered) + atomic.LoadInt64(&done) }
	stuck := func(phase string, want int64) bool {
		rest, where := atRest(3 * time.Second)
		if rest {
			res.violate("%s: %d of %d accepted messages have been taken up and nothing moved for 10 s; the process is at rest (every goroutine parked, none running, runnable or sleeping: %s), so the remaining messages sit in the inboxes of started actors for good (%s)", phase, progress(), want, where, res.Desc)
		} else {
			res.inconclusive("%s: %d of %d, not at rest: %s", phase, progress(), want, where)
		}
		close(gate)
		return true
	}
	if fin, _ := settle(wd, 10*time.Second, func() bool { return atomic.LoadInt64(&entered) == int64(K) }, progress); !fin {
		stuck("messages to the crowd", int64(K))
		return
	}
	e.Send(opener, openMsg{})
	want := int64(2*K + 1)
	if fin, _ := settle(wd, 10*time.Second, func() bool { return progress() == want }, progress); !fin {
		select {
		case <-gate:
			res.inconclusive("the gate is open but only %d of %d handler runs completed", progress(), want)
		default:
			stuck("message to the opener while the crowd waits", want)
		}
		return
	}
	res.count("crowd_actors", int64(K))
	res.Sig = sigHash("crowd", K)
	if c.n < 1 {
		res.Sample = map[string]any{"scenario": res.Desc}
	}
	for _, p := range append(pids, opener) {
		e.Poison(p)
	}
	return res
}

// ---- stop requests are accepted messages too ---------------------------------------

// c03StopRace: an actor gets a few messages and then, timed against the moment it runs out of
// work, a stop request (Engine.Stop / Poison). The request was accepted by a started actor, so
// it is processed without any further send: the context becomes done. A request left behind at
// the worker's running->idle transition shows as a context that becomes done only after a kick.
func c03StopRace(c *caseCtx) (res caseResult) {
	r := c.rng
	wd := watchdog(c.tier)
	e, err := actor.NewEngine(actor.NewEngineConfig())
	if err != nil {
		res.inconclusive("engine: %v", err)
		return
	}
	rounds := 150 + r.Intn(150)
	res.Desc = fmt.Sprintf("stop-race: %d rounds of {spawn, 1-3 messages, stop request timed against the idle transition}", rounds)
	for i := 0; i < rounds; i++ {
		spin := r.Intn(40)
		var handled int64
		pid := e.SpawnFunc(func(c *actor.Context) {
			if _, ok := c.Message().(*tmsg); ok {
				for k := 0; k < spin*20; k++ {
					runtime.Gosched()
				}
				atomic.AddInt64(&handled, 1)
			}
		}, "sr", actor.WithID(fmt.Sprint(i)), actor.WithInboxSize(pick(r, 1, 8, 1024)))
		k := 1 + r.Intn(3)
		for j := 0; j < k; j++ {
			e.Send(pid, &tmsg{Seq: j})
		}
		// sweep the delay across the time the actor needs for its messages
		for d := 0; d < r.Intn(60)*20; d++ {
			runtime.Gosched()
		}
		graceful := r.Intn(3) == 0
		var ctx context.Context
		if graceful {
			ctx = e.Poison(pid)
		} else {
			ctx = e.Stop(pid)
		}
		select {
		case <-ctx.Done():
			continue
		case <-time.After(10 * time.Second):
		}
		// nothing for 10 s. At rest (no worker goroutine left)? If not, the process is merely slow
		ctxDone := func() bool {
			select {
			case <-ctx.Done():
				return true
			default:
				return false
			}
		}
		late, rest, where := stallVerdict(wd, ctxDone)
		if late {
			continue
		}
		if !rest {
			res.inconclusive("round %d: stop context not done within the watchdog, the process is not at rest: %s", i, where)
			return
		}
		// a further message shows whether the request was sitting in an idle inbox
		e.Send(pid, kickMsg{})
		select {
		case <-ctx.Done():
			res.violate("round %d: a stop request (graceful=%v) accepted by a started actor that had just run out of work was not processed, the process came to rest (%s); it was processed as soon as a further message arrived (left behind at the idle transition) (%s)", i, graceful, where, res.Desc)
		case <-time.After(wd / 2):
			res.violate("round %d: a stop request (graceful=%v) was never processed, the process is at rest (%s), and a further message changed nothing", i, graceful, where)
		}
		return
	}
	res.count("stop_races", int64(rounds))
	res.Sig = sigHash("stop-race", rounds/30)
	return res
}
