package main

import (
	"bufio"
	"bytes"
	"encoding/json"
	"fmt"
	"hash/fnv"
	"io"
	"log/slog"
	"math/rand"
	"os"
	"os/exec"
	"path/filepath"
	"regexp"
	"runtime"
	"sort"
	"strconv"
	"strings"
	"sync"
	"syscall"
	"time"
)

// ---------------------------------------------------------------------------
// Verdicts and case results

const (
	vHeld         = "held"
	vViolated     = "violated"
	vInconclusive = "inconclusive"
	vKnown        = "known" // reproduced a finding listed in known_findings.json
)

// caseResult is what a child reports for one case (one line of JSON).
type caseResult struct {
	Case     int              `json:"case"`
	Mode     string           `json:"mode"`
	Verdict  string           `json:"verdict"`
	Sig      string           `json:"sig,omitempty"`    // abstract signature; "" = trivial case (does not count as non-trivial)
	Desc     string           `json:"desc,omitempty"`   // short scenario description
	Detail   string           `json:"detail,omitempty"` // why violated / inconclusive
	Known    string           `json:"known,omitempty"`  // key of the known finding reproduced
	Counters map[string]int64 `json:"counters,omitempty"`
	Sample   any              `json:"sample,omitempty"` // the scenario and what was observed, written out
	LogTail  string           `json:"log_tail,omitempty"`
}

func (r *caseResult) count(k string, n int64) {
	if r.Counters == nil {
		r.Counters = map[string]int64{}
	}
	r.Counters[k] += n
}

func (r *caseResult) violate(format string, a ...any) {
	if r.Verdict != vViolated {
		r.Verdict = vViolated
		r.Detail = fmt.Sprintf(format, a...)
	} else {
		r.Detail += "; " + fmt.Sprintf(format, a...)
		if len(r.Detail) > 4000 {
			r.Detail = r.Detail[:4000]
		}
	}
}

func (r *caseResult) inconclusive(format string, a ...any) {
	if r.Verdict == vHeld || r.Verdict == "" {
		r.Verdict = vInconclusive
		r.Detail = fmt.Sprintf(format, a...)
	}
}

// caseCtx is handed to a property's case function.
type caseCtx struct {
	id   string
	tier string
	seed int64
	mode string
	n    int
	rng  *rand.Rand
}

func (c *caseCtx) thorough() bool { return c.tier == "thorough" }

// modeSpec describes one workload mode of a property: how many cases, in which
// build, with which hook settings.
type modeSpec struct {
	name       string
	n          int           // number of cases
	race       bool          // run in the -race build
	env        []string      // extra environment (VERIF_HOOK=…)
	perChild   int           // cases per child process
	parallel   int           // children in parallel (0 = NumCPU)
	timeout    time.Duration // per child watchdog
	gomaxprocs int           // 0 = default
	netns      bool          // run the child in a private network namespace
	exhaustive bool          // the case list enumerates a finite space completely
}

type prop struct {
	id          string
	level       string
	rule        string
	assumptions []string
	modes       func(tier string, seed int64) []modeSpec
	run         func(c *caseCtx) caseResult
	// post may adjust the verdict from aggregated counters, e.g. "critical window never reached ⇒ inconclusive".
	post func(a *aggregate)
	// minimum number of distinct non-trivial cases below which the run is inconclusive
	minDistinct int
}

var props = map[string]*prop{}

func register(p *prop) { props[p.id] = p }

func caseSeed(seed int64, id, mode string, n int) int64 {
	h := fnv.New64a()
	fmt.Fprintf(h, "%d|%s|%s|%d", seed, id, mode, n)
	return int64(h.Sum64() & 0x7fffffffffffffff)
}

// ---------------------------------------------------------------------------
// Child

func parseCases(s string) []int {
	var out []int
	for _, part := range strings.Split(s, ",") {
		part = strings.TrimSpace(part)
		if part == "" {
			continue
		}
		if i := strings.Index(part, "-"); i > 0 {
			a, _ := strconv.Atoi(part[:i])
			b, _ := strconv.Atoi(part[i+1:])
			for x := a; x <= b; x++ {
				out = append(out, x)
			}
			continue
		}
		if x, err := strconv.Atoi(part); err == nil {
			out = append(out, x)
		}
	}
	return out
}

var stdoutMu sync.Mutex

func emit(tag string, v any) {
	b, _ := json.Marshal(v)
	stdoutMu.Lock()
	fmt.Fprintf(os.Stdout, "@@%s %s\n", tag, b)
	stdoutMu.Unlock()
}

func runChild(id, tier string, seed int64, cases, mode string) int {
	p := props[id]
	if p == nil {
		fmt.Fprintln(os.Stderr, "unknown property", id)
		return 2
	}
	// the library logs through slog; keep it out of the way (and cheap).
	slog.SetDefault(slog.New(slog.NewTextHandler(io.Discard, &slog.HandlerOptions{Level: slog.Level(100)})))
	bad := 0
	for _, n := range parseCases(cases) {
		c := &caseCtx{id: id, tier: tier, seed: seed, mode: mode, n: n}
		c.rng = rand.New(rand.NewSource(caseSeed(seed, id, mode, n)))
		emit("BEGIN", map[string]any{"case": n, "mode": mode})
		res := p.run(c)
		res.Case, res.Mode = n, mode
		if res.Verdict == "" {
			res.Verdict = vHeld
		}
		emit("END", res)
		if res.Verdict == vViolated || res.Verdict == vInconclusive {
			bad++
			if bad >= 3 {
				// the verdict of the run is settled; do not burn the remaining budget on watchdogs
				emit("ABORT", map[string]any{"after_case": n})
				break
			}
		}
	}
	return 0
}

// ---------------------------------------------------------------------------
// Parent

type aggregate struct {
	evaluations  int
	sigs         map[string]int
	counters     map[string]int64
	samples      []any
	violations   []caseResult
	inconclusive []caseResult
	known        map[string]int
	raceReports  []string // de-duplicated
	raceRaw      int
	crashes      int
	modes        []map[string]any
	exhaustive   bool
	notes        []string
}

type knownFinding struct {
	Property  string `json:"property"`
	Key       string `json:"key"`
	Status    string `json:"status"` // open | fixed
	Commit    string `json:"commit,omitempty"`
	Signature string `json:"signature"`
	What      string `json:"what"`
}

func loadKnown(verifDir string) []knownFinding {
	var f struct {
		Findings []knownFinding `json:"findings"`
	}
	b, err := os.ReadFile(filepath.Join(verifDir, "known_findings.json"))
	if err != nil {
		return nil
	}
	_ = json.Unmarshal(b, &f)
	return f.Findings
}

type chunkJob struct {
	mode  modeSpec
	idx   int
	cases []int
}

var raceHdr = regexp.MustCompile(`(?m)^WARNING: DATA RACE`)

// raceSignature reduces one race report to the pair of innermost hollywood /
// harness frames with line numbers stripped, for de-duplication.
func raceSignatures(report string) []string {
	var sigs []string
	blocks := strings.Split(report, "WARNING: DATA RACE")
	fn := regexp.MustCompile(`(?m)^\s{2}([\w./*()\[\]·-]+)\(`)
	for _, b := range blocks[1:] {
		if i := strings.Index(b, "=================="); i >= 0 {
			b = b[:i]
		}
		var frames []string
		for _, sec := range strings.Split(b, "\n\n") {
			if !(strings.Contains(sec, "by goroutine") || strings.Contains(sec, "by main goroutine")) {
				continue
			}
			if strings.HasPrefix(strings.TrimSpace(sec), "Goroutine") {
				continue
			}
			m := fn.FindAllStringSubmatch(sec, 3)
			var fr []string
			for _, x := range m {
				fr = append(fr, x[1])
			}
			frames = append(frames, strings.Join(fr, "<"))
		}
		sort.Strings(frames)
		sigs = append(sigs, strings.Join(frames, " || "))
	}
	return sigs
}

// crashExcerpt returns the head of the panic / fatal error report in a child's
// output (that is where the reason and the failing goroutine are) plus its tail.
func crashExcerpt(path string) string {
	b, err := os.ReadFile(path)
	if err != nil {
		return ""
	}
	s := string(b)
	for _, key := range []string{"\npanic: ", "\nfatal error: ", "SIGQUIT"} {
		if i := strings.Index(s, key); i >= 0 {
			end := i + 6000
			if end > len(s) {
				end = len(s)
			}
			tail := ""
			if len(s)-end > 3000 {
				tail = "\n[...]\n" + s[len(s)-3000:]
			}
			return s[i:end] + tail
		}
	}
	if len(s) > 12000 {
		s = s[len(s)-12000:]
	}
	return s
}

func tailOf(path string, n int) string {
	b, err := os.ReadFile(path)
	if err != nil {
		return ""
	}
	if len(b) > n {
		b = b[len(b)-n:]
	}
	return string(b)
}

func runChunk(self string, raceBin string, id, tier string, seed int64, work string, job chunkJob, agg *aggregate, mu *sync.Mutex) {
	bin := self
	if job.mode.race {
		bin = raceBin
	}
	var cs []string
	consecutive := len(job.cases) > 1
	for i, c := range job.cases {
		cs = append(cs, strconv.Itoa(c))
		if i > 0 && c != job.cases[i-1]+1 {
			consecutive = false
		}
	}
	caseArg := strings.Join(cs, ",")
	if consecutive {
		caseArg = fmt.Sprintf("%d-%d", job.cases[0], job.cases[len(job.cases)-1])
	}
	args := []string{"child", "-id", id, "-tier", tier, "-seed", strconv.FormatInt(seed, 10), "-mode", job.mode.name, "-cases", caseArg}
	var cmd *exec.Cmd
	if job.mode.netns {
		sh := "ip link set lo up; ip link set lo multicast on 2>/dev/null; ip route add 224.0.0.0/4 dev lo 2>/dev/null; exec \"$0\" \"$@\""
		cmd = exec.Command("unshare", append([]string{"-n", "sh", "-c", sh, bin}, args...)...)
	} else {
		cmd = exec.Command(bin, args...)
	}
	logPath := filepath.Join(work, fmt.Sprintf("%s-%s-%d.log", id, job.mode.name, job.idx))
	racePath := filepath.Join(work, fmt.Sprintf("race-%s-%s-%d", id, job.mode.name, job.idx))
	logf, _ := os.Create(logPath)
	defer logf.Close()
	cmd.Env = append(os.Environ(), "VERIF_SEED="+strconv.FormatInt(seed, 10))
	cmd.Env = append(cmd.Env, job.mode.env...)
	if job.mode.race {
		cmd.Env = append(cmd.Env, "GORACE=halt_on_error=0 log_path="+racePath)
	}
	if job.mode.gomaxprocs > 0 {
		cmd.Env = append(cmd.Env, "GOMAXPROCS="+strconv.Itoa(job.mode.gomaxprocs))
	}
	cmd.Env = append(cmd.Env, "GOTRACEBACK=all")
	stdout, _ := cmd.StdoutPipe()
	cmd.Stderr = logf
	if err := cmd.Start(); err != nil {
		mu.Lock()
		agg.inconclusive = append(agg.inconclusive, caseResult{Mode: job.mode.name, Verdict: vInconclusive, Detail: "cannot start child: " + err.Error()})
		mu.Unlock()
		return
	}
	timedOut := false
	timer := time.AfterFunc(job.mode.timeout, func() {
		timedOut = true
		_ = cmd.Process.Signal(syscall.SIGQUIT)
		time.AfterFunc(10*time.Second, func() { _ = cmd.Process.Kill() })
	})
	open := -1
	aborted := false
	nResults := 0
	results := map[int]bool{}
	sc := bufio.NewScanner(stdout)
	sc.Buffer(make([]byte, 1<<20), 64<<20)
	var local []caseResult
	for sc.Scan() {
		line := sc.Text()
		fmt.Fprintln(logf, line)
		if strings.HasPrefix(line, "@@BEGIN ") {
			var b struct {
				Case int `json:"case"`
			}
			_ = json.Unmarshal([]byte(line[8:]), &b)
			open = b.Case
		} else if strings.HasPrefix(line, "@@ABORT ") {
			aborted = true
		} else if strings.HasPrefix(line, "@@END ") {
			var r caseResult
			if err := json.Unmarshal([]byte(line[6:]), &r); err == nil {
				local = append(local, r)
				results[r.Case] = true
				nResults++
				open = -1
			}
		}
	}
	err := cmd.Wait()
	timer.Stop()
	// race reports
	var raceText string
	if job.mode.race {
		files, _ := filepath.Glob(racePath + "*")
		for _, f := range files {
			b, _ := os.ReadFile(f)
			raceText += string(b)
		}
	}
	mu.Lock()
	defer mu.Unlock()
	for _, r := range local {
		agg.add(r)
	}
	if raceText != "" {
		n := len(raceHdr.FindAllString(raceText, -1))
		agg.raceRaw += n
		for _, s := range raceSignatures(raceText) {
			found := false
			for _, o := range agg.raceReports {
				if o == s {
					found = true
				}
			}
			if !found {
				agg.raceReports = append(agg.raceReports, s)
			}
		}
		if n > 0 {
			r := caseResult{Mode: job.mode.name, Case: -1, Verdict: vViolated,
				Detail:  fmt.Sprintf("race detector: %d report(s) in child %d of mode %s", n, job.idx, job.mode.name),
				LogTail: firstN(raceText, 12000)}
			agg.violations = append(agg.violations, r)
		}
	}
	exitOK := err == nil
	if !exitOK && job.mode.race && raceText != "" && !timedOut && open == -1 && nResults == len(job.cases) {
		// exit status 66: the race detector's own exit code; already accounted for.
		exitOK = true
	}
	if aborted && exitOK && open == -1 {
		return
	}
	if !exitOK || nResults != len(job.cases) {
		if timedOut {
			r := caseResult{Mode: job.mode.name, Case: open, Verdict: vInconclusive,
				Detail:  fmt.Sprintf("child watchdog (%v) fired; open case %d", job.mode.timeout, open),
				LogTail: crashExcerpt(logPath)}
			agg.inconclusive = append(agg.inconclusive, r)
		} else {
			agg.crashes++
			r := caseResult{Mode: job.mode.name, Case: open, Verdict: vViolated,
				Detail:  fmt.Sprintf("child process died (%v) while running case %d: the process hosting the actors did not survive", err, open),
				LogTail: crashExcerpt(logPath)}
			agg.violations = append(agg.violations, r)
		}
	}
}

func firstN(s string, n int) string {
	if len(s) > n {
		return s[:n]
	}
	return s
}

func (a *aggregate) add(r caseResult) {
	a.evaluations++
	if r.Sig != "" {
		a.sigs[r.Sig]++
	}
	for k, v := range r.Counters {
		a.counters[k] += v
	}
	switch r.Verdict {
	case vViolated:
		a.violations = append(a.violations, r)
	case vInconclusive:
		a.inconclusive = append(a.inconclusive, r)
	case vKnown:
		a.known[r.Known]++
	}
	if r.Sample != nil && len(a.samples) < 6 {
		a.samples = append(a.samples, map[string]any{"mode": r.Mode, "case": r.Case, "desc": r.Desc, "sample": r.Sample})
	}
}

func runParent(id, tier string, seed int64, work, raceBin, verifDir, repoDir, replayFile string) int {
	start := time.Now()
	outDir := verifDir
	if v := os.Getenv("VERIF_OUT"); v != "" {
		outDir = v
	}
	p := props[id]
	if p == nil {
		fmt.Fprintln(os.Stderr, "unknown property", id)
		return 2
	}
	if v := os.Getenv("VERIF_SEED"); v != "" {
		if s, err := strconv.ParseInt(v, 10, 64); err == nil {
			seed = s
		}
	}
	if work == "" {
		d, _ := os.MkdirTemp("", "vh-"+id)
		work = d
		defer os.RemoveAll(d)
	}
	self, _ := os.Executable()
	agg := &aggregate{sigs: map[string]int{}, counters: map[string]int64{}, known: map[string]int{}}
	modes := p.modes(tier, seed)
	var jobs []chunkJob

	if replayFile != "" {
		var rp struct {
			Seed int64  `json:"seed"`
			Tier string `json:"tier"`
			Case int    `json:"case"`
			Mode string `json:"mode"`
		}
		b, err := os.ReadFile(replayFile)
		if err != nil || json.Unmarshal(b, &rp) != nil {
			fmt.Fprintln(os.Stderr, "cannot read replay file", replayFile)
			return 2
		}
		seed, tier = rp.Seed, rp.Tier
		modes = p.modes(tier, seed)
		for _, m := range modes {
			if m.name == rp.Mode && rp.Case >= 0 {
				// the same scenario, repeated (the thread schedule is the only thing that varies)
				for rep := 0; rep < 16; rep++ {
					jobs = append(jobs, chunkJob{mode: m, idx: rep, cases: []int{rp.Case, rp.Case, rp.Case, rp.Case}})
				}
			}
		}
		if len(jobs) == 0 {
			fmt.Fprintln(os.Stderr, "replay file names no runnable case (mode", rp.Mode, "case", rp.Case, ")")
			return 2
		}
	} else {
		for _, m := range modes {
			if m.perChild <= 0 {
				m.perChild = 50
			}
			if m.timeout == 0 {
				m.timeout = 5 * time.Minute
			}
			agg.exhaustive = agg.exhaustive || m.exhaustive
			agg.modes = append(agg.modes, map[string]any{"mode": m.name, "cases": m.n, "race_detector": m.race, "env": m.env, "gomaxprocs": m.gomaxprocs, "netns": m.netns})
			idx := 0
			for a := 0; a < m.n; a += m.perChild {
				b := a + m.perChild
				if b > m.n {
					b = m.n
				}
				var cs []int
				for x := a; x < b; x++ {
					cs = append(cs, x)
				}
				jobs = append(jobs, chunkJob{mode: m, idx: idx, cases: cs})
				idx++
			}
		}
	}
	for i := range jobs {
		if jobs[i].mode.timeout == 0 {
			jobs[i].mode.timeout = 5 * time.Minute
		}
	}
	// run jobs, bounded parallelism per mode
	var mu sync.Mutex
	var wg sync.WaitGroup
	sem := map[string]chan struct{}{}
	for _, j := range jobs {
		if _, ok := sem[j.mode.name]; !ok {
			par := j.mode.parallel
			if par <= 0 {
				par = runtime.NumCPU()
			}
			sem[j.mode.name] = make(chan struct{}, par)
		}
	}
	global := make(chan struct{}, runtime.NumCPU())
	for _, j := range jobs {
		j := j
		wg.Add(1)
		go func() {
			defer wg.Done()
			sem[j.mode.name] <- struct{}{}
			global <- struct{}{}
			mu.Lock()
			settled := len(agg.violations) >= 5
			mu.Unlock()
			if settled && replayFile == "" {
				<-global
				<-sem[j.mode.name]
				return
			}
			runChunk(self, raceBin, id, tier, seed, work, j, agg, &mu)
			<-global
			<-sem[j.mode.name]
		}()
	}
	wg.Wait()

	if p.post != nil {
		p.post(agg)
	}
	distinct := len(agg.sigs)
	minD := p.minDistinct
	if minD < 2 {
		minD = 2
	}
	if replayFile == "" && distinct < minD && len(agg.violations) == 0 {
		agg.inconclusive = append(agg.inconclusive, caseResult{Verdict: vInconclusive, Case: -1,
			Detail: fmt.Sprintf("only %d distinct non-trivial cases observed (minimum %d): the run observed too little to decide", distinct, minD)})
	}

	// known findings
	known := loadKnown(verifDir)
	for key, n := range agg.known {
		listed := false
		for _, k := range known {
			if k.Property == id && k.Key == key && k.Status == "open" {
				listed = true
				fmt.Printf("KNOWN-FINDING: property=%s %s [%s; reproduced in %d case(s)]\n", id, k.What, key, n)
			}
		}
		if !listed {
			agg.violations = append(agg.violations, caseResult{Verdict: vViolated, Case: -1,
				Detail: fmt.Sprintf("a failure with signature %q was observed but is not listed as an open finding in known_findings.json", key)})
		}
	}

	// replay files for violations
	exit := 0
	if len(agg.violations) > 0 {
		exit = 1
		dir := filepath.Join(outDir, "replays", id)
		_ = os.MkdirAll(dir, 0o755)
		seen := map[string]bool{}
		for i, v := range agg.violations {
			if i >= 10 {
				break
			}
			name := fmt.Sprintf("%s-%s-seed%d-%s-case%d.json", id, tier, seed, v.Mode, v.Case)
			if seen[name] {
				continue
			}
			seen[name] = true
			path := filepath.Join(dir, name)
			rp := map[string]any{"property": id, "tier": tier, "seed": seed, "mode": v.Mode, "case": v.Case,
				"detail": v.Detail, "desc": v.Desc, "sample": v.Sample, "log_tail": v.LogTail,
				"rerun": fmt.Sprintf("/verif/bin/check %s --replay %s", id, path)}
			b, _ := json.MarshalIndent(rp, "", " ")
			_ = os.WriteFile(path, b, 0o644)
			fmt.Printf("VIOLATION property=%s replay=%s\n", id, path)
			fmt.Printf("  %s\n", firstN(v.Detail, 600))
		}
	} else if len(agg.inconclusive) > 0 {
		exit = 2
		for i, v := range agg.inconclusive {
			if i >= 5 {
				break
			}
			fmt.Printf("INCONCLUSIVE property=%s mode=%s case=%d: %s\n", id, v.Mode, v.Case, firstN(v.Detail, 600))
			if v.LogTail != "" {
				dir := filepath.Join(outDir, "replays", id)
				_ = os.MkdirAll(dir, 0o755)
				path := filepath.Join(dir, fmt.Sprintf("%s-%s-seed%d-%s-case%d.inconclusive.log", id, tier, seed, v.Mode, v.Case))
				_ = os.WriteFile(path, []byte(v.Detail+"\n\n"+v.LogTail), 0o644)
				fmt.Printf("  log: %s\n", path)
			}
		}
	}

	if replayFile == "" {
		writeEvidence(p, agg, tier, seed, outDir, time.Since(start), distinct)
	}
	fmt.Printf("%s %s seed=%d: %d cases, %d distinct non-trivial, %d violation(s), %d inconclusive, %d race report(s), %.1fs\n",
		id, tier, seed, agg.evaluations, distinct, len(agg.violations), len(agg.inconclusive), agg.raceRaw, time.Since(start).Seconds())
	return exit
}

func writeEvidence(p *prop, agg *aggregate, tier string, seed int64, verifDir string, wall time.Duration, distinct int) {
	cov := map[string]any{
		"evaluations":         agg.evaluations,
		"distinct_nontrivial": distinct,
		"rule":                p.rule,
		"samples":             agg.samples,
		"counters":            agg.counters,
		"modes":               agg.modes,
		"inconclusive_cases":  len(agg.inconclusive),
		"child_crashes":       agg.crashes,
		"known_findings_seen": agg.known,
	}
	if agg.exhaustive {
		cov["exhaustive"] = true
	}
	anyRace := false
	for _, m := range agg.modes {
		if m["race_detector"] == true {
			anyRace = true
		}
	}
	if anyRace {
		cov["race_detector_reports"] = agg.raceRaw
		cov["race_detector_distinct"] = agg.raceReports
	}
	if len(agg.notes) > 0 {
		cov["notes"] = agg.notes
	}
	if agg.samples == nil {
		cov["samples"] = []any{}
	}
	ev := map[string]any{
		"property_id": p.id,
		"tier":        tier,
		"seed":        seed,
		"level":       p.level,
		"coverage":    cov,
		"assumptions": p.assumptions,
		"wall_s":      float64(int(wall.Seconds()*10)) / 10,
		"violations":  len(agg.violations),
	}
	var buf bytes.Buffer
	enc := json.NewEncoder(&buf)
	enc.SetIndent("", " ")
	_ = enc.Encode(ev)
	dir := filepath.Join(verifDir, "evidence")
	_ = os.MkdirAll(dir, 0o755)
	_ = os.WriteFile(filepath.Join(dir, p.id+".json"), buf.Bytes(), 0o644)
}

// ---------------------------------------------------------------------------
// small helpers shared by the workloads

// waitFor polls cond until it holds or the watchdog expires. The watchdog is
// generous; its firing is never by itself a verdict.
func waitFor(d time.Duration, cond func() bool) bool {
	deadline := time.Now().Add(d)
	for i := 0; ; i++ {
		if cond() {
			return true
		}
		if time.Now().After(deadline) {
			return false
		}
		if i < 50 {
			runtime.Gosched()
		} else if i < 200 {
			time.Sleep(20 * time.Microsecond)
		} else {
			time.Sleep(500 * time.Microsecond)
		}
	}
}

// watchdog is the generous bound on every wait of a case. Its expiry alone is
// never a violation (the monitors then look for a decision on state); it only
// costs time when something is already wrong.
func watchdog(tier string) time.Duration {
	if tier == "thorough" {
		return 120 * time.Second
	}
	return 60 * time.Second
}

func pick[T any](r *rand.Rand, xs ...T) T { return xs[r.Intn(len(xs))] }

func sigHash(parts ...any) string {
	h := fnv.New64a()
	for _, p := range parts {
		fmt.Fprintf(h, "%v|", p)
	}
	return strconv.FormatUint(h.Sum64(), 36)
}

func newRand(seed int64) *rand.Rand { return rand.New(rand.NewSource(seed)) }

// settle waits until done() holds or until progress() has not changed for
// `stall` (the system has gone quiet without being done). It returns (true, _)
// if done, (false, true) if the system stalled, (false, false) if the watchdog
// expired while there still was progress. A "kick" proof is only meaningful
// after a stall: a system that is merely slow is still making progress.
func settle(wd, stall time.Duration, done func() bool, progress func() int64) (finished, stalled bool) {
	deadline := time.Now().Add(wd)
	last := progress()
	lastChange := time.Now()
	for {
		if done() {
			return true, false
		}
		if p := progress(); p != last {
			last, lastChange = p, time.Now()
		}
		if time.Since(lastChange) >= stall {
			return false, true
		}
		if time.Now().After(deadline) {
			return false, false
		}
		time.Sleep(2 * time.Millisecond)
	}
}

// ---------------------------------------------------------------------------
// Deciding "it will never happen" on state: the process has come to rest.

var goroutineHdr = regexp.MustCompile(`(?m)^goroutine (\d+) \[([^\],]+)[^\]]*\]:\n(\S+)`)

type gState struct {
	state string
	top   string
}

func goroutineSnapshot() (map[int]gState, string) {
	buf := make([]byte, 1<<20)
	for {
		n := runtime.Stack(buf, true)
		if n < len(buf) {
			buf = buf[:n]
			break
		}
		buf = make([]byte, 2*len(buf))
	}
	out := map[int]gState{}
	for _, m := range goroutineHdr.FindAllSubmatch(buf, -1) {
		id, _ := strconv.Atoi(string(m[1]))
		out[id] = gState{state: string(m[2]), top: string(m[3])}
	}
	return out, string(buf)
}

// blockedForGood lists the wait reasons of a goroutine that only another
// goroutine can wake: channels, select, mutexes, condition variables,
// wait groups. (A select or channel wait may also be on a timer channel; see
// atRest.) Everything else - running, runnable, sleep, syscall, IO wait - counts
// as alive.
func blockedForGood(state string) bool {
	switch {
	case strings.HasPrefix(state, "chan receive"), strings.HasPrefix(state, "chan send"), strings.HasPrefix(state, "select"),
		strings.HasPrefix(state, "semacquire"), strings.HasPrefix(state, "sync."):
		return true
	case strings.Contains(state, "GC "), strings.Contains(state, "finalizer"), strings.Contains(state, "idle"):
		return true // runtime helpers
	}
	return false
}

// atRest decides whether the whole process has provably come to rest: three
// goroutine dumps taken gap apart show the same goroutines, each parked in the
// same place on a channel, select or lock, and none running, runnable, sleeping,
// in a system call or waiting for I/O (the calling goroutine excepted). In that
// state nothing can move unless the caller acts, so whatever is still pending
// will stay pending: a hang is then a fact about the state, not about the
// clock. Timers are the one thing this cannot see (a goroutine parked in a
// select on a timer channel); the workloads that use atRest arm no timer of
// their own and gap is chosen well above every timer in the delivery path of
// the code under test (restart delay <= 1 ms in these workloads; request
// timeouts are armed only where the caller passes the bound in).
// The second result describes where the goroutines of the code under test are parked.
func atRest(gap time.Duration) (bool, string) {
	var prev map[int]gState
	var dump string
	me := curGoid()
	for round := 0; round < 3; round++ {
		if round > 0 {
			time.Sleep(gap)
		}
		cur, d := goroutineSnapshot()
		dump = d
		delete(cur, me)
		for id, g := range cur {
			if !blockedForGood(g.state) {
				return false, fmt.Sprintf("goroutine %d is %s in %s", id, g.state, g.top)
			}
		}
		if prev != nil {
			if len(prev) != len(cur) {
				return false, "the set of goroutines changed"
			}
			for id, g := range cur {
				if p, ok := prev[id]; !ok || p != g {
					return false, fmt.Sprintf("goroutine %d moved", id)
				}
			}
		}
		prev = cur
	}
	return true, parkedSummary(dump)
}

func curGoid() int {
	buf := make([]byte, 64)
	n := runtime.Stack(buf, false)
	f := strings.Fields(string(buf[:n]))
	if len(f) > 1 {
		id, _ := strconv.Atoi(f[1])
		return id
	}
	return -1
}

// parkedSummary: for each goroutine with a frame of the code under test, its wait reason and
// innermost such frame, counted.
func parkedSummary(dump string) string {
	counts := map[string]int{}
	for _, blk := range strings.Split(dump, "\n\n") {
		lines := strings.Split(blk, "\n")
		if len(lines) == 0 || !strings.HasPrefix(lines[0], "goroutine ") {
			continue
		}
		state := lines[0]
		if i := strings.Index(state, "["); i >= 0 {
			state = strings.TrimSuffix(strings.TrimSuffix(state[i:], ":"), "]") + "]"
		}
		for _, l := range lines[1:] {
			if strings.HasPrefix(l, "github.com/anthdm/hollywood/") && !strings.Contains(l, "verifshim") {
				fn := strings.TrimPrefix(l, "github.com/anthdm/hollywood/")
				if j := strings.LastIndex(fn, "("); j > 0 {
					fn = fn[:j]
				}
				counts[state+" "+fn]++
				break
			}
		}
	}
	var keys []string
	for k := range counts {
		keys = append(keys, k)
	}
	sort.Strings(keys)
	var parts []string
	for _, k := range keys {
		parts = append(parts, fmt.Sprintf("%dx %s", counts[k], k))
	}
	if len(parts) == 0 {
		return "no goroutine is inside the code under test"
	}
	if len(parts) > 8 {
		parts = append(parts[:8], "...")
	}
	return strings.Join(parts, "; ")
}

// stallVerdict is consulted after a measured stall (no progress for 10 s) and before a kick proof.
// A lost wake-up leaves no worker goroutine behind, so the process is at rest; if it is not, it is
// merely slow and gets the rest of the watchdog to finish. Returns whether done() came true after
// all, whether the process is at rest, and where its goroutines are parked.
func stallVerdict(wd time.Duration, done func() bool) (finished, rest bool, where string) {
	rest, where = atRest(2 * time.Second)
	if rest {
		return done(), true, where
	}
	return waitFor(wd, done), false, where
}

// neverOrNotYet is for waits that ran into their watchdog: "X did not happen" is a violation only if
// the state shows it never will (the process is at rest); otherwise the run was merely slow and the
// case is inconclusive.
func (r *caseResult) neverOrNotYet(format string, a ...any) {
	msg := fmt.Sprintf(format, a...)
	if rest, where := atRest(3 * time.Second); rest {
		r.violate("%s - and never will: the process is at rest (%s)", msg, where)
	} else {
		r.inconclusive("%s within the watchdog; the process is not at rest: %s", msg, where)
	}
}
