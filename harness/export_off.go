//go:build !verifexport

package main

import (
	"errors"
	"net"

	"github.com/anthdm/hollywood/actor"
	"github.com/anthdm/hollywood/remote"
)

const exportAvailable = false

type wireDeliver struct {
	Target *actor.PID
	Sender *actor.PID
	Msg    any
}

func writerInvoke(e *actor.Engine, addr string, stream remote.DRPCRemote_ReceiveStream, rawconn net.Conn, batch []wireDeliver) {
}

func readerReceive(e *actor.Engine, stream remote.DRPCRemote_ReceiveStream) error {
	return errors.New("export shim unavailable")
}

func unwrapDeliver(msg any) (wireDeliver, bool) { return wireDeliver{}, false }

func sharedReader(e *actor.Engine) func(stream remote.DRPCRemote_ReceiveStream) error {
	return func(remote.DRPCRemote_ReceiveStream) error { return nil }
}
