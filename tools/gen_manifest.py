#!/usr/bin/env python3
"""Regenerate /verif/MANIFEST.json from the table below (kept next to the code so that the
manifest, the registered checks and DESIGN.md stay in step)."""
import json, os, sys
V = "/verif"
ids = [json.loads(l)["id"] for l in open(f"{V}/properties.jsonl")]

# id -> (category, technique, level text, level note, design ref)
CHECKS = {
 "C01": ("exploration", "runtime monitoring: offline exactly-once/order/fidelity checker over send and receive logs (unique ids) of the real Inbox and engine under injected yields; race detector on the engine runs",
         "Held on every execution produced: PRNG scenarios over inbox size, senders, backlog geometry (ring growth, wrap, 4096 batch split), baton chains and actor-to-actor sends; a lost message is decided on state (final marker + kick), never on time.",
         "trusts the Go race detector and the harness's own send log; reaches only the schedules the injected yields produce", "DESIGN.md §4 C01"),
 "C02": ("exploration", "runtime monitoring: Go race detector over deliberately unsynchronised receiver/processer state + in-flight overlap counter, with yields injected at every procStatus/ring operation through a build-time import overlay; directed workloads: sustained non-empty inbox, successor spawned from the Stopped handler, parent stopped while a child is inside a long Receive",
         "No overlapping or racing Receive/Invoke in the executions produced (thousands of contended hand-offs, crashes/restarts and stop callers included). Detection power measured on a load-then-store mutant of schedule().",
         "race detector sees only executed accesses; hooks in -race runs are synchronisation-free", "DESIGN.md §4 C02"),
 "C03": ("exploration", "runtime monitoring: exact trace of the inbox's synchronisation operations (shimmed atomics/ring) + state oracle at goroutine-quiescence (invoked == accepted); window-hit counters as evidence; engine workloads (actors started at a later attempt, a crowd of actors all inside Receive) where a measured stall is decided by a kick message (lost wake-up) and by goroutine-dump quiescence (atRest)",
         "Bounded-progress restatement of the liveness claim, decided on state at a quiescent point; the evidence counts how often a push fell into each critical window; a run without window hits is inconclusive.",
         "finite runs cannot show 'never'; goroutine accounting assumes only harness and worker goroutines in the child", "DESIGN.md §4 C03"),
 "C04": ("exploration", "runtime monitoring: recorded per-incarnation delivery log, event-stream log and stop contexts compared with an executable sequential reference model of one actor; batch boundaries pinned by gate messages",
         "Exact agreement of the observed delivery log with the model on every script (lifecycle order, one final Stopped, nothing afterwards, early sends retained, Spawn returns after Started).",
         "the reference model is written from the property statements; a watchdog expiry without a deviating log is decided by goroutine-dump quiescence (atRest: process at rest = violation), otherwise inconclusive", "DESIGN.md §4 C04"),
 "C05": ("fault_enumeration", "runtime monitoring with enumerated fault injection: scripted panics at every position (and pair of positions) of a batch, in Initialized/Started, in the replay of the restart buffer; observed logs vs sequential reference model; child-process isolation",
         "The crash-point grid is enumerated completely in the thorough tier (a fixed third in quick); each point is an execution of the real code judged against the model (Stopped to the failed incarnation, restart event count, replay order, no redelivery, process alive).",
         "panics inside the Stopped handler are outside the quantifier", "DESIGN.md §4 C05"),
 "C06": ("fault_enumeration", "runtime monitoring with enumerated fault injection: MaxRestarts x placement of the exhausting panic x inbox content x children, each run in a child process and judged against the reference model and the event stream",
         "Complete enumeration of the grid in the thorough tier; per cell: restart events <= budget, one max-restarts event, one final Stopped after the children, unregistered, later send dead-letters once, process and bystander alive.",
         "same model as C04; process death is attributed to the open case", "DESIGN.md §4 C06"),
 "C07": ("exploration", "runtime monitoring: checks taken at the instant each caller observes ctx.Done() (Stopped finished, unregistered, prior messages handled), scripted pills vs reference model, concurrent callers under injected yields; a lost request decided on state by two ordered sentinel messages, a hang by goroutine-dump quiescence (atRest); the histories of the repaired findings replayed as directed cases",
         "Every context observed done satisfied the conditions, in scripted (exact model) and free-running multi-caller executions; 'eventually' decided on state (actor seen stopped and unregistered => an open context can never close).",
         "drain guarantee judged only for single-request scenarios", "DESIGN.md §4 C07"),
 "C08": ("exploration", "runtime monitoring: global sequence numbers at begin/end of every Stopped handler, registry probes from inside Stopped, Children()/Parent() read from inside Receive, over PRNG trees with concurrent third-party poisons and injected lock delays, plus directed histories (held Stopped handler, respawn race, replacing supervisor, child inside a long Receive)",
         "Every parent/child edge of every tree shut down satisfied child-Stopped-ends-before-parent-Stopped-begins and was unregistered before the stop context was done; Children()/Parent() equal to the model at every comparison point; the histories of the repaired findings replayed as directed cases.",
         "ordering taken from one atomic counter; trees up to 150 nodes, depth 4", "DESIGN.md §4 C08"),
 "C09": ("exploration", "runtime monitoring: k subscribed monitor actors log every event; per-send identity matching (unique tags) of DeadLetterEvent / EngineRemoteMissingEvent; marker rounds through the event stream decide that the event count settles and stays bounded; blocked senders decided by goroutine-dump quiescence (atRest)",
         "Each undeliverable send observed produced exactly one matching event at every live monitor, nil targets none, every send call returned, and the event count settled within the bound - with dead subscribers present.",
         "secondary dead letters to subscribers that died meanwhile are not counted against user sends", "DESIGN.md §4 C09"),
 "C10": ("exploration", "runtime monitoring: Producer invocation counters, duplicate-id events, per-instance receive logs and live intervals (global sequence counter) under injected delays at the registry's lock operations; race detector on the registry",
         "In all concurrent spawn / stop / respawn executions produced exactly one Producer ran per contended id, duplicates changed nothing for the incumbent, instances of one id never overlapped, GetPID followed registration.",
         "live interval = end of Started .. begin of Stopped", "DESIGN.md §4 C10"),
 "C11": ("exploration", "runtime monitoring: per-request call/return records with unique ids, scripted responder behaviours (immediate, before Result, late, twice, never, fan-out of concurrent replies, exhausted timeout), registry probe after Result, dead-letter matching for late replies; a Result() that never returns decided by goroutine-dump quiescence (atRest)",
         "Every Result observed returned the reply to its own request or an error not earlier than the timeout; response PIDs were unregistered afterwards; each late/second reply became exactly one DeadLetterEvent for that response PID.",
         "response-id collisions (2^-31 per pair) are classified, not judged; the timeout is judged from below only", "DESIGN.md §4 C11"),
 "C12": ("exploration", "runtime monitoring: per-subscriber event logs compared with a set-semantics reference model over single-goroutine histories (equal PIDs in distinct objects), per-broadcaster order under concurrent broadcasters, exact engine-event multisets for lifecycle scripts; a recording Remoter for subscribers on other nodes",
         "Every history produced the exact expected log at every subscriber; concurrent broadcasters' events arrived once and in per-broadcaster order; lifecycle scripts published exactly the expected events.",
         "flush by sentinel marker + direct message", "DESIGN.md §4 C12"),
 "C13": ("exploration", "runtime monitoring: recording middleware (enter / deferred exit) interleaved with the receiver log, checked for well nested blocks on all delivery paths of the scripted scenarios; a filtering middleware whose swallowed deliveries must end at the filter",
         "Every delivery observed (user, Initialized, Started, Stopped; normal, crash, restart, replay, max-restarts, shutdown) was wrapped exactly once by each layer in order.",
         "does not demand a nil sender on lifecycle deliveries", "DESIGN.md §4 C13"),
 "C14": ("exploration", "runtime monitoring: differential test against a slice model, linearizability checking of recorded concurrent histories with porcupine, race detector + conservation/order checks under stress, and a never-empty workload in which every one of M single pops must report true",
         "Sequential results exact on all generated sequences with every head position at growth constructed; thousands of short concurrent histories linearizable w.r.t. a FIFO model (porcupine Ok); stress runs race-free and conserving.",
         "porcupine timeouts are counted as unknown (run inconclusive above 5%); New(0)/PopN(<=0) out of scope", "DESIGN.md §4 C14"),
 "C15": ("exploration", "runtime monitoring: the real streamWriter.Invoke and streamReader.Receive driven with capturing/feeding fake streams over the marshalled bytes, recording Processers in the receiving registry, several connections read side by side by one reader; plus the same traffic end-to-end over loopback TCP in a private network namespace",
         "Every generated batch (mixed targets, senders incl. none/equal/split-ambiguous, five payload types, unserialisable items at PRNG positions) was delivered as the input list minus the unserialisable items, in order, with payload and sender intact; no panic; the node survived.",
         "internal mode depends on a verif-only export file in package remote (falls back to end-to-end only if it no longer compiles)", "DESIGN.md §4 C15"),
 "C16": ("exploration", "runtime monitoring with hostile-input generation: structured malformed envelopes and mutated/random byte strings through the real decoder and streamReader.Receive (panic = violation, deliveries checked against the envelope's own valid indices); a hostile dRPC client and raw TCP garbage against a live node in a child process, then liveness probes",
         "No panic and no misdirected delivery on any of the generated envelopes / byte strings; after each batch of hostile inputs over TCP (also addressed to the node's internal stream writer) the node still received and sent.",
         "'all byte strings' is sampled; an invalid sender index may mean 'no sender' or 'reject'", "DESIGN.md §4 C16"),
 "C18": ("exploration", "runtime monitoring: reference-model comparison (set model of the membership) of Members(), HasKind() and the join/leave event log after every snapshot pushed to a real cluster agent",
         "Exact agreement with the set model after every snapshot of every generated history (growing, shrinking, repeated, duplicate entries).",
         "member kind sets fixed per history; FIFO barrier instead of sleeps", "DESIGN.md §4 C18"),
 "C19": ("exploration", "runtime monitoring: quiescent histories of a multi-node cluster of real Cluster objects over an in-memory Remoter (real ProtoSerializer round trip, PRNG delivery order), compared on every node with a sequential reference model of the cluster; producer-run counters per node",
         "After every operation of every generated history all nodes agreed with the model (activation placement by the select function, uniqueness, propagation, topology transfer to joiners, deactivation, purge on leave).",
         "in-memory network instead of TCP; concurrent conflicting activations out of scope", "DESIGN.md §4 C19"),
 "C17": ("exploration", "runtime monitoring over real loopback TCP (public API only, child processes in private network namespaces): exactly-once/order/sender oracles on recorded deliveries in up phases, event-stream monitors for RemoteUnreachableEvent and stream dead letters in down phases, peer restarts on the same address (also behind a bare listener that goes away, with subscribers re-sending on the event), CA-verified TLS peers, listener probes",
         "All up phases delivered exactly once, in per-(sender,target) order, with senders and correlated replies; every down phase reported the peer unreachable and dead-lettered exactly the burst; after each peer restart fresh sends got through (also with senders running across the peer's death and delays injected before registry writes); Stop closed the listener; double Start/Stop harmless.",
         "few down phases per run (3 s each); in-flight messages at connection loss not judged", "DESIGN.md §4 C17"),
 "C20": ("exploration", "runtime monitoring of the real SelfManaged provider (zeroconf on, private network namespace): handshake replies captured by a probe actor, agent view and restart events compared with a list model after every step; unreachable reports injected through the event stream and flushed with a sentinel member; the provider runs behind a receiver that can be parked so that messages queue up in its inbox in a chosen order",
         "After every step of every generated sequence the provider's list (as answered to handshakes), the agent's view and the model agreed; reports for non-members changed nothing; the provider never restarted.",
         "member hosts are listening remotes; hosts unique; own address never reported", "DESIGN.md §4 C20"),
}
PENDING = "check under construction in this session; not claimed until it is built and silent on the unchanged tree"
RACE = {"C01","C02","C03","C10","C14"}

checks = []
for i in ids:
    if i not in CHECKS: continue
    cat, tech, text, note, ref = CHECKS[i]
    checks.append({
        "property_id": i,
        "quick_cmd": f"bin/check {i} quick",
        "thorough_cmd": f"bin/check {i} thorough",
        "evidence_file": f"/verif/evidence/{i}.json",
        "replay_cmd_template": f"bin/check {i} --replay {{path}}",
        "engine": "vh",
        "level_claimed": {"category": cat, "text": text, "design_ref": ref},
        "level_note": note,
        "technique": tech,
    })
m = {
 "version": 1,
 "setup_cmd": "bin/setup",
 "hooks": {
   "guard": "verif",
   "enable": "no source hooks in /repo: bin/build.sh generates a go build -overlay (instr/gen_overlay.py) that rewrites only the import lines of actor/inbox.go, actor/registry.go, safemap/safemap.go and ringbuffer/ringbuffer.go to shim packages (//go:build verif) and adds a verif-only export file to package remote; the harness is built with -tags verif",
   "baseline_off_cmd": "cd /repo && GOFLAGS=-mod=mod GOPROXY=off GOSUMDB=off go test -vet=off -count=1 -timeout 25m ./...",
   "source_commits": [],
   "add_only": True,
 },
 "engines": [{"name": "vh", "path": "/verif/harness", "serves_properties": [c["property_id"] for c in checks],
              "kind_free_text": "Go harness (runtime monitors, recorders, reference models, porcupine) built against /repo's working tree with the instrumentation overlay; plain and -race builds; workloads run in child processes"}],
 "checks": checks,
 "not_applicable": [{"property_id": i, "reason": PENDING} for i in ids if i not in CHECKS],
 "notes": "bin/check <ID> quick|thorough is the single entry point; exit 0 held, 1 violation (VIOLATION line), 2 inconclusive, 3 build problem. VERIF_SEED selects the PRNG seed. Known findings: /verif/known_findings.json.",
}
json.dump(m, open(f"{V}/MANIFEST.json", "w"), indent=1)
print("checks:", len(checks), "pending:", len(m["not_applicable"]))
