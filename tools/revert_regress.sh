#!/bin/bash
# revert_regress.sh <outdir> — development aid: for every fixed finding in known_findings.json, apply the reverse of
# its fix: commit to a scratch worktree of /repo HEAD and run the finding's check (quick tier). Expected: exit 1.
set -u
OUT=$1; mkdir -p "$OUT"
python3 - <<'PY' > "$OUT/list.txt"
import json
for f in json.load(open('/verif/known_findings.json'))['findings']:
    if f.get('status')=='fixed' and f.get('commit'):
        print(f['commit'], f['property'])
PY
one() {
  commit=$1; prop=$2; OUT=$3
  git -C /repo diff $commit $commit^ > $OUT/revert_$commit.diff
  WT=$(mktemp -d /tmp/revwt.XXXXXX)
  git -C /repo worktree add -q --detach "$WT" HEAD || { echo "$commit worktree-failed"; return; }
  if git -C "$WT" apply $OUT/revert_$commit.diff 2>/dev/null || git -C "$WT" apply --3way $OUT/revert_$commit.diff 2>/dev/null; then
    if (cd $WT && GOFLAGS=-mod=mod GOPROXY=off GOSUMDB=off GOTOOLCHAIN=local go build ./... >/dev/null 2>&1); then
      VERIF_REPO=$WT VERIF_OUT=$OUT/$commit.out timeout 1800 /verif/bin/check $prop quick > $OUT/$commit.$prop.log 2>&1; rc=$?
      echo "$commit $prop rc=$rc :: $(grep -E '^  ' $OUT/$commit.$prop.log | head -1 | cut -c1-160)"
      rm -rf $OUT/$commit.out
    else
      echo "$commit $prop reverse-patch-does-not-build-on-HEAD"
    fi
  else
    echo "$commit $prop reverse-patch-does-not-apply-to-HEAD"
  fi
  git -C /repo worktree remove --force "$WT" >/dev/null 2>&1
}
export -f one
cat "$OUT/list.txt" | xargs -P ${PAR:-2} -L 1 bash -c 'one $0 $1 '"$OUT"
