#!/bin/bash
# own_mutants.sh — run each patch in /verif/mutants against the check(s) that should catch it (development aid)
cd /verif
while read m ids; do
  echo "### $m -> $ids"
  bin/mutcheck /verif/mutants/$m.diff $ids 2>&1 | grep -E "^== |exit=|^(C[0-9]+ quick)" 
done <<'LIST'
m01_buffer_includes_crashing_msg C05
m02_buffer_skips_one C05
m03_budget_off_by_one C06
m04_cancel_before_stopped C07
m05_self_before_children C08
m06_children_not_awaited C08
m07_middleware_reversed C13
m08_no_stopped_on_restart C04
m09_restart_event_count_stale C05
m10_schedule_before_push C03
m11_start_does_not_schedule C03
m12_grow_wrong_tail C14
m13_len_outside_lock C14
m14_popn_head_off C14
m15_target_index_zero C15
m16_tables_swapped C15
m17_no_upper_bound_check C16
m18_except_swapped C18
m19_no_purge_on_leave C19
m20_no_duplicate_check C19
m21_no_topology_to_joiner C19
m22_kinds_not_rebuilt C18
m23_getbyhost_wrong_member C20
m24_deadletter_drops_sender C09
m25_nil_target_deadletters C09
m26_respond_timeout_ignored C11
m28_agent_not_told_on_leave C20
LIST
