#!/bin/bash
# seed_eval.sh <Cxx> <A|B> [check ids...]  — confirm a seeded change and run the checks against it (development aid)
# Reads /tmp/seed/<Cxx>.out/<X>/{patch.diff,zz_seed_demo_test.go,meta.json}; writes ${SEEDEVAL_DIR:-/tmp/seedeval}/<Cxx>-<X>.summary
set -u
P=$1; X=$2; shift 2
CHECKS=${@:-$P}
SRC=${SEED_ROOT:-/tmp/seed}/$P.out/$X
OUT=${SEEDEVAL_DIR:-/tmp/seedeval}/$P-$X
export GOFLAGS=-mod=mod GOPROXY=off GOSUMDB=off GOTOOLCHAIN=local
NS() { unshare -n sh -c 'ip link set lo up; ip link set lo multicast on 2>/dev/null; ip route add 224.0.0.0/4 dev lo 2>/dev/null; exec "$@"' sh "$@"; }
WT=$(mktemp -d /tmp/seedwt.XXXXXX)
git -C /repo worktree add -q --detach "$WT" HEAD || exit 3
trap 'git -C /repo worktree remove --force "$WT" >/dev/null 2>&1' EXIT
{
echo "== $P-$X"
python3 -c "import json;d=json.load(open('$SRC/meta.json'));print('summary:',d.get('summary'));print('needs:',d.get('needs'))"
DEMO_DIR=$(python3 -c "import json;print(json.load(open('$SRC/meta.json')).get('demo_dir','actor'))")
# 1. demo on the unchanged tree must pass
cp $SRC/zz_seed_demo_test.go $WT/$DEMO_DIR/zz_seed_demo_test.go
(cd $WT && NS timeout 600 go test -vet=off -count=1 -run 'Seed' ./$DEMO_DIR/ > $OUT.demo_base.log 2>&1); echo "demo_without_patch_rc=$?"
rm -f $WT/$DEMO_DIR/zz_seed_demo_test.go
# 2. apply
PATCH=$SRC/patch.diff; [ -f $SRC/patch.rebased.diff ] && PATCH=$SRC/patch.rebased.diff; if git -C $WT apply $PATCH 2>/dev/null; then echo "apply=clean($(basename $PATCH))"; elif git -C $WT apply --3way $SRC/patch.diff 2>$OUT.apply.err; then echo "apply=3way"; else echo "apply=FAILED"; cat $OUT.apply.err | head -5; exit 0; fi
git -C $WT diff HEAD > $OUT.rebased.diff
(cd $WT && go build ./... > $OUT.build.log 2>&1); echo "build_rc=$?"
# 3. suite with the patch (cluster: the two 10ms-sleep tests are flaky on the untouched tree under load and are skipped)
(cd $WT && NS timeout 900 go test -vet=off -count=1 ./actor/ ./remote/ ./ringbuffer/ ./safemap/ > $OUT.suite.log 2>&1); echo "suite_rc=$?"
(cd $WT && NS timeout 900 go test -vet=off -count=1 -skip 'TestGetActiveByKind|TestGetActiveByID' ./cluster/ > $OUT.suite_cluster.log 2>&1); echo "suite_cluster_rc=$?"
# 4. demo with the patch must fail
cp $SRC/zz_seed_demo_test.go $WT/$DEMO_DIR/zz_seed_demo_test.go
(cd $WT && NS timeout 600 go test -vet=off -count=1 -run 'Seed' ./$DEMO_DIR/ > $OUT.demo_patch.log 2>&1); echo "demo_with_patch_rc=$?"
rm -f $WT/$DEMO_DIR/zz_seed_demo_test.go
# 5. the checks
for ID in $CHECKS; do
  VERIF_REPO=$WT VERIF_OUT=$OUT.out timeout 1500 /verif/bin/check $ID quick > $OUT.check_$ID.log 2>&1; rc=$?
  echo "check_$ID rc=$rc :: $(grep -E '^  ' $OUT.check_$ID.log | head -1 | cut -c1-260)"
  tail -1 $OUT.check_$ID.log
done
rm -rf $OUT.out
} > $OUT.summary 2>&1
cat $OUT.summary
