#!/usr/bin/env python3
"""assemble_seeded.py <round> <seed_root> <first_pass_evaldir> <final_evaldir> <base_commit> <letterA> <letterB>

Development aid: turns the deliveries of one seeding round (<seed_root>/<Cxx>.out/{A,B}) and the summaries
written by tools/seed_eval.sh into /verif/seeded/<Cxx>-<letter>/{patch.diff,zz_seed_demo_test.go,meta.json}.
A change is stored only if the confirmation steps passed (demo passes without / fails with the patch, build ok).
"""
import json, os, re, shutil, sys

rnd, root, first, final, base, la, lb = sys.argv[1:8]
letters = {"A": la, "B": lb}
notes = json.load(open(sys.argv[8])) if len(sys.argv) > 8 else {}

def parse(path):
    d = {"checks": {}}
    if not os.path.exists(path):
        return None
    for line in open(path, errors="replace"):
        line = line.rstrip("\n")
        m = re.match(r"(demo_without_patch_rc|build_rc|suite_rc|suite_cluster_rc|demo_with_patch_rc)=(\d+)", line)
        if m:
            d[m.group(1)] = int(m.group(2))
        m = re.match(r"apply=(.*)", line)
        if m:
            d["apply"] = m.group(1)
        m = re.match(r"check_(C\d+) rc=(\d+) :: ?(.*)", line)
        if m:
            d["checks"][m.group(1)] = {"exit": int(m.group(2)), "first_violation": m.group(3).strip()[:400]}
    return d

rows = []
for n in range(1, 21):
    prop = "C%02d" % n
    for v in "AB":
        src = os.path.join(root, prop + ".out", v)
        if not os.path.exists(os.path.join(src, "patch.diff")):
            continue
        key = "%s-%s" % (prop, v)
        fin = parse(os.path.join(final, key + ".summary"))
        fst = parse(os.path.join(first, key + ".summary")) or fin
        if fin is None:
            print("no evaluation for", key); continue
        confirmed = fin.get("demo_without_patch_rc") == 0 and fin.get("demo_with_patch_rc", 0) != 0 and fin.get("build_rc") == 0
        if not confirmed:
            print("NOT CONFIRMED", key, fin); continue
        am = json.load(open(os.path.join(src, "meta.json")))
        dst = os.path.join("/verif/seeded", "%s-%s" % (prop, letters[v]))
        os.makedirs(dst, exist_ok=True)
        rebased = os.path.exists(os.path.join(src, "patch.rebased.diff"))
        if rebased:
            shutil.copy(os.path.join(src, "patch.rebased.diff"), os.path.join(dst, "patch.diff"))
            shutil.copy(os.path.join(src, "patch.diff"), os.path.join(dst, "patch.as_delivered.diff"))
        else:
            shutil.copy(os.path.join(src, "patch.diff"), os.path.join(dst, "patch.diff"))
        shutil.copy(os.path.join(src, "zz_seed_demo_test.go"), os.path.join(dst, "zz_seed_demo_test.go"))
        extra = notes.get(key, {})
        checks = dict(fin["checks"])
        checks.update(extra.get("checks", {}))
        caught = sorted(k for k, c in checks.items() if c["exit"] == 1)
        fp = fst["checks"].get(prop, {}).get("exit")
        first_pass = {1: "caught", 0: "missed", 2: "inconclusive (exit 2)"}.get(fp, "not run")
        if extra.get("first_pass"):
            first_pass = extra["first_pass"]
        meta = {
            "property": prop, "variant": letters[v], "round": int(rnd),
            "summary": am.get("summary"), "breaks": am.get("breaks"), "needs_to_manifest": am.get("needs"),
            "demo_dir": am.get("demo_dir", "actor"), "demo_cmd": am.get("demo_cmd"),
            "author": "independent sub-agent (round %s) given only the property text, one-line summaries of the earlier changes for that property (to avoid repeats) and a scratch worktree of /repo (base %s)" % (rnd, base),
            "rebased_onto_HEAD": rebased,
            "confirmed_by_me": {
                "how": "tools/seed_eval.sh in a scratch worktree of /repo HEAD (removed afterwards), everything that opens sockets inside a private network namespace",
                "demo_without_patch_exit": fin.get("demo_without_patch_rc"), "demo_with_patch_exit": fin.get("demo_with_patch_rc"),
                "build_exit": fin.get("build_rc"),
                "suite_actor_remote_ringbuffer_safemap_exit": fin.get("suite_rc"),
                "suite_cluster_exit_without_the_two_10ms_sleep_tests": fin.get("suite_cluster_rc"),
                "suite_note": extra.get("suite_note", am.get("suite_note", "")),
                "author_reported": {k: am.get(k) for k in ("suite_runs_passed", "demo_fail_with_patch", "demo_pass_without_patch") if k in am},
            },
            "checks_run_against_it": checks,
            "caught_by": caught,
            "first_pass": first_pass,
            "strengthening": extra.get("strengthening", ""),
            "repo_head_when_confirmed": extra.get("repo_head", base),
            "note_on_applying": "patch.diff applies to /repo at repo_head_when_confirmed (git worktree add --detach <dir> <commit>); later fix: commits may touch the same lines",
        }
        if extra.get("not_claimed"):
            meta["not_claimed"] = extra["not_claimed"]
        json.dump(meta, open(os.path.join(dst, "meta.json"), "w"), indent=1)
        rows.append((key, letters[v], am.get("summary", "")[:170].replace("|", "/").replace("\n", " "), (am.get("needs") or "")[:150].replace("|", "/").replace("\n", " "), ",".join(caught) or "-", first_pass, extra.get("strengthening", "")))
print("\n| id | change | needs | caught by | result |\n|---|---|---|---|---|")
for key, L, summ, needs, caught, fp, st in rows:
    prop = key.split("-")[0]
    res = "caught" if fp == "caught" else ("%s → %s" % (fp, ("caught after " + st) if caught != "-" else "not caught: " + st))
    print("| %s-%s | %s | %s | %s | %s |" % (prop, L, summ, needs, caught, res))
