#!/bin/bash
# seed_regress.sh <outdir> [pattern]  — development aid: run each stored seeded change's own check against it
# (scratch worktree of /repo HEAD, patch applied there, removed afterwards). Expected: exit 1 for every change
# except those whose meta.json says "not_claimed". Prints one line per change.
set -u
OUT=$1; PAT=${2:-C}
mkdir -p "$OUT"
one() {
  d=$1; OUT=$2
  name=$(basename $d); prop=${name%%-*}
  WT=$(mktemp -d /tmp/regwt.XXXXXX)
  git -C /repo worktree add -q --detach "$WT" HEAD || { echo "$name worktree-failed"; return; }
  if git -C "$WT" apply "$d/patch.diff" 2>/dev/null || git -C "$WT" apply --3way "$d/patch.diff" 2>/dev/null; then
    VERIF_REPO=$WT VERIF_OUT=$OUT/$name.out timeout 1800 /verif/bin/check $prop quick > $OUT/$name.log 2>&1; rc=$?
    nc=$(grep -c not_claimed $d/meta.json)
    echo "$name rc=$rc not_claimed=$nc :: $(grep -E '^  ' $OUT/$name.log | head -1 | cut -c1-160)"
    rm -rf $OUT/$name.out
  else
    echo "$name does-not-apply-to-HEAD"
  fi
  git -C /repo worktree remove --force "$WT" >/dev/null 2>&1
}
export -f one
ls -d /verif/seeded/${PAT}* | xargs -P ${PAR:-5} -I{} bash -c 'one {} '"$OUT"
